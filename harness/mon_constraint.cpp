// mon_constraint — constraint monitors: C07 (derivative hierarchy / Pq / G routes / virtual
// work, one constraint at a time) and C08 (constrained forward dynamics) (DESIGN §5).
//
// Legal-client preconditions (a case or sub-case violating one is skipped with a reason,
// never judged):
//  * state away from coordinate singularities (model.h guards), mass matrix cond <= 1e7;
//  * constraint geometry away from its documented singular configurations: Rod /
//    SphereOnSphere end points at least 0.2 apart, ConstantAngle in [0.4, pi-0.4],
//    LineOnLine edges clearly non-parallel with a clear sign of the contact normal;
//  * finite-difference oracles: the h and h/2 estimates must agree (else inconclusive:
//    non-smooth point inside the stencil, e.g. a contact-frame choice flipping);
//  * C08: the enabled constraint set must be *consistent*: a set whose G M^-1 G^T is rank
//    deficient at the tested state is judged only if the acceleration-level right hand
//    side lies in its range (redundant-but-consistent sets are made by construction:
//    duplicated constraints, loops closed twice on an assembled configuration); sets in
//    the ambiguous-rank zone are skipped (ill-conditioned-W);
//  * the on-manifold regime is reached by choosing constraint parameters so that the
//    position error vanishes at the random configuration, then System::project(1e-11)
//    (up to 4 calls); a project() failure or a state still off the manifold is a skip,
//    not a verdict.
//
// Characterised by-design deviations from the C07 hierarchy (DESIGN §0/§5): the monitor
// computes each deviation in closed form from reported kinematics (in the constraint's
// Ancestor frame A), requires  (FD - reported) - predicted ~ 0  and reports a clearly
// non-zero predicted term under its own key (known findings, never silently dropped):
//   material-point-formulation:{Ball,Weld}:velocity      d/dt perr - pverr =  w_AB1 x perr      (off-manifold)
//   material-point-formulation:{Ball,Weld}:acceleration  d/dt pverr - paerr = -w_AB1 x pverr    (off-manifold)
//   material-point-formulation:{Ball,Weld}:Pq            (dperr/dq - Pq) N v =  w_AB1(v) x perr  (off-manifold)
//   material-point-formulation:NoSlip1D:acceleration     n.[w_1 x (v_P - v_P1) - w_0 x (v_P - v_P0)] (also on-manifold)
//   contact-frame-spin:SphereOnSphereContact:acceleration (rolling rows) sigma*(verr_y,-verr_x), sigma = spin
//       about the centre line of the contact frame rebuilt by setRotationFromOneAxis, relative to the
//       non-spinning frame the acceleration rows assume                                          (off-manifold)
// Anything not explained by these terms, on any type and in either regime, is a violation.
// State reuse: every oracle is local to one <t,q,u>; each regime is judged on the state as generated and
// again on the SAME State object after a u-only change, a q-only change and (PrescribedMotion) a time-only
// change (keys suffixed :after-...-only-change), so stale lazily cached constraint data is seen. C08 does
// the same for non-redundant sets and also compares with a State whose cache is rebuilt from Position up.
// Side observations (counted, not judged): Pq versus dqerr/dq and calcPq versus calcPqTranspose^T along
// q-directions outside range(N) (quaternion scaling; spin of LineOrientation/FreeLine about their axis).
#include "model.h"
#include <array>
using namespace SimTK;
using namespace vh;

static const double E1 = 1e-9;   // algebraic identities (relative, scale-aware)
static const double E2 = 1e-6;   // finite-difference identities

// ------------------------------------------------------------------ small helpers
static Vector randVector(Rng& r, int n, double s = 1) { Vector v(n); for (int i = 0; i < n; ++i) v[i] = r.sym(s); return v; }
static Vector_<SpatialVec> randBodyForces(Rng& r, int nb, double s = 3) {
    Vector_<SpatialVec> F(nb);
    for (int i = 0; i < nb; ++i) F[i] = SpatialVec(randVec3(r, s), randVec3(r, s));
    return F;
}
static double spMax(const SpatialVec& v) { double m = 0; for (int i = 0; i < 2; ++i) for (int j = 0; j < 3; ++j) m = std::max(m, std::fabs(v[i][j])); return m; }
static double rowSumMax(const Matrix& A) { double m = 0; for (int i = 0; i < A.nrow(); ++i) { double s = 0; for (int j = 0; j < A.ncol(); ++j) s += std::fabs(A(i, j)); m = std::max(m, s); } return m; }
static bool finiteM(const Matrix& A) { for (int i = 0; i < A.nrow(); ++i) for (int j = 0; j < A.ncol(); ++j) if (!std::isfinite(A(i, j))) return false; return true; }
static double mdiff(const Matrix& A, const Matrix& B) {
    if (A.nrow() != B.nrow() || A.ncol() != B.ncol()) return std::numeric_limits<double>::infinity();
    double m = 0; for (int i = 0; i < A.nrow(); ++i) for (int j = 0; j < A.ncol(); ++j) m = std::max(m, std::fabs(A(i, j) - B(i, j))); return m;
}
static double mdiffT(const Matrix& A, const Matrix& Bt) {   // max |A - Bt^T|
    if (A.nrow() != Bt.ncol() || A.ncol() != Bt.nrow()) return std::numeric_limits<double>::infinity();
    double m = 0; for (int i = 0; i < A.nrow(); ++i) for (int j = 0; j < A.ncol(); ++j) m = std::max(m, std::fabs(A(i, j) - Bt(j, i))); return m;
}
static double vdiff(const Vector& a, const Vector& b) { if (a.size() != b.size()) return std::numeric_limits<double>::infinity(); return a.size() ? vmaxabs(a - b) : 0.0; }
static Vector sub(const Vector& v, int off, int n) { Vector o(n); for (int i = 0; i < n; ++i) o[i] = v[off + i]; return o; }
static Json jM(const Matrix& A) { Json j = Json::arr(); for (int i = 0; i < A.nrow(); ++i) { Json row = Json::arr(); for (int k = 0; k < A.ncol(); ++k) row.push(Json((double)A(i, k))); j.push(row); } return j; }

// cyclic Jacobi eigen-decomposition of a small symmetric matrix (harness-side, independent
// of the library's factorizations). Returns eigenvalues (unsorted) and eigenvectors (columns).
static void jacobiEig(const Matrix& Ain, std::vector<double>& ev, Matrix& V) {
    int n = Ain.nrow(); Matrix A = Ain; V.resize(n, n); V = 0; for (int i = 0; i < n; ++i) V(i, i) = 1;
    for (int sweep = 0; sweep < 60; ++sweep) {
        double off = 0, dia = 0;
        for (int i = 0; i < n; ++i) { dia += A(i, i) * A(i, i); for (int j = i + 1; j < n; ++j) off += A(i, j) * A(i, j); }
        if (off <= 1e-30 * (dia + 1e-300)) break;
        for (int p = 0; p < n; ++p) for (int q = p + 1; q < n; ++q) {
            if (std::fabs(A(p, q)) < 1e-300) continue;
            double th = (A(q, q) - A(p, p)) / (2 * A(p, q));
            double t = (th >= 0 ? 1 : -1) / (std::fabs(th) + std::sqrt(th * th + 1));
            double cs = 1 / std::sqrt(t * t + 1), sn = t * cs;
            for (int k = 0; k < n; ++k) { double akp = A(k, p), akq = A(k, q); A(k, p) = cs * akp - sn * akq; A(k, q) = sn * akp + cs * akq; }
            for (int k = 0; k < n; ++k) { double apk = A(p, k), aqk = A(q, k); A(p, k) = cs * apk - sn * aqk; A(q, k) = sn * apk + cs * aqk; }
            for (int k = 0; k < n; ++k) { double vkp = V(k, p), vkq = V(k, q); V(k, p) = cs * vkp - sn * vkq; V(k, q) = sn * vkp + cs * vkq; }
        }
    }
    ev.resize(n); for (int i = 0; i < n; ++i) ev[i] = A(i, i);
}
static double condEstimateM(const Matrix& M) {
    double maxd = 0; for (int i = 0; i < M.nrow(); ++i) maxd = std::max(maxd, std::fabs(M(i, i)));
    double minp = cholMinPivot(M);
    if (!(minp > 0)) return std::numeric_limits<double>::infinity();
    return maxd / minp;
}

// 5-point central derivative at 0 of a vector function, with steps h and h/2 (the two
// estimates share evaluations). d = the h/2 estimate, disagree = |d(h) - d(h/2)|_inf.
template <class F> static void fd5(F f, double h, Vector& d, double& disagree) {
    Vector fm4 = f(-2 * h), fm2 = f(-h), fm1 = f(-h / 2), fp1 = f(h / 2), fp2 = f(h), fp4 = f(2 * h);
    Vector d1 = (fm4 - fp4 + 8.0 * (fp2 - fm2)) / (12 * h);
    Vector d2 = (fm2 - fp2 + 8.0 * (fp1 - fm1)) / (6 * h);
    d = d2; disagree = d.size() ? vmaxabs(d1 - d2) : 0.0;
}

// ------------------------------------------------------------------ user Functions
// f(x) = sum a_i x_i + b x_0 x_{n-1} + c sin(x_0) - off   (nonlinear coordinate coupler)
class CoupFunc : public Function {
public:
    std::vector<double> a; double b = 0, c = 0, off = 0;
    Real calcValue(const Vector& x) const override {
        int n = (int)a.size(); double v = -off + c * std::sin(x[0]) + b * x[0] * x[n - 1];
        for (int i = 0; i < n; ++i) v += a[i] * x[i];
        return v;
    }
    Real calcDerivative(const Array_<int>& d, const Vector& x) const override {
        int n = (int)a.size();
        if (d.size() == 1) { int k = d[0]; return a[k] + b * ((k == 0 ? x[n - 1] : 0.0) + (k == n - 1 ? x[0] : 0.0)) + (k == 0 ? c * std::cos(x[0]) : 0.0); }
        if (d.size() == 2) { int k = d[0], l = d[1]; return b * ((k == 0 && l == n - 1 ? 1.0 : 0.0) + (k == n - 1 && l == 0 ? 1.0 : 0.0)) + (k == 0 && l == 0 ? -c * std::sin(x[0]) : 0.0); }
        throw std::logic_error("CoupFunc: derivative order > 2 requested");
    }
    int getArgumentSize() const override { return (int)a.size(); }
    int getMaxDerivativeOrder() const override { return 2; }
    CoupFunc* clone() const override { return new CoupFunc(*this); }
};
// f(u,q) = g(q) sum a_i u_i + b u_0^2 - off, g = 1 + e sin(q_0) (if a coordinate argument is present)
class SpeedFunc : public Function {
public:
    std::vector<double> a; int ncoord = 0; double b = 0, e = 0, off = 0;
    double lin(const Vector& x) const { double v = 0; for (size_t i = 0; i < a.size(); ++i) v += a[i] * x[(int)i]; return v; }
    double g(const Vector& x) const { return ncoord ? 1 + e * std::sin(x[(int)a.size()]) : 1.0; }
    Real calcValue(const Vector& x) const override { return g(x) * lin(x) + b * x[0] * x[0] - off; }
    Real calcDerivative(const Array_<int>& d, const Vector& x) const override {
        int n = (int)a.size();
        auto gq = [&]() { return ncoord ? e * std::cos(x[n]) : 0.0; };
        if (d.size() == 1) { int k = d[0]; if (k < n) return g(x) * a[k] + (k == 0 ? 2 * b * x[0] : 0.0); return k == n ? gq() * lin(x) : 0.0; }
        if (d.size() == 2) {
            int k = d[0], l = d[1]; if (k > l) std::swap(k, l);
            if (l < n) return (k == 0 && l == 0) ? 2 * b : 0.0;
            if (l == n && k < n) return gq() * a[k];
            if (l == n && k == n) return ncoord ? -e * std::sin(x[n]) * lin(x) : 0.0;
            return 0.0;
        }
        throw std::logic_error("SpeedFunc: derivative order > 2 requested");
    }
    int getArgumentSize() const override { return (int)a.size() + ncoord; }
    int getMaxDerivativeOrder() const override { return 2; }
    SpeedFunc* clone() const override { return new SpeedFunc(*this); }
};
// f(t) = a + b t + c sin(w t)
class TimeFunc : public Function {
public:
    double a = 0, b = 0, c = 0, w = 1;
    Real calcValue(const Vector& x) const override { return a + b * x[0] + c * std::sin(w * x[0]); }
    Real calcDerivative(const Array_<int>& d, const Vector& x) const override {
        if (d.size() == 1) return b + c * w * std::cos(w * x[0]);
        if (d.size() == 2) return -c * w * w * std::sin(w * x[0]);
        throw std::logic_error("TimeFunc: derivative order > 2 requested");
    }
    int getArgumentSize() const override { return 1; }
    int getMaxDerivativeOrder() const override { return 2; }
    TimeFunc* clone() const override { return new TimeFunc(*this); }
};

// ------------------------------------------------------------------ harness-written Custom constraints
// Rod in the squared form: perr = (p.p - d^2)/2, p = p_AS2 - p_AS1
class CustomRodImpl : public Constraint::Custom::Implementation {
public:
    CustomRodImpl(SimbodyMatterSubsystem& matter, MobilizedBody& b1, const Vec3& p1, MobilizedBody& b2, const Vec3& p2, double d)
        : Implementation(matter, 1, 0, 0), p1(p1), p2(p2), d(d) { B1 = addConstrainedBody(b1); B2 = addConstrainedBody(b2); }
    CustomRodImpl* clone() const override { return new CustomRodImpl(*this); }
    void calcPositionErrors(const State& s, const Array_<Transform, ConstrainedBodyIndex>& X_AB, const Array_<Real, ConstrainedQIndex>&, Array_<Real>& perr) const override {
        Vec3 p = findStationLocation(X_AB, B2, p2) - findStationLocation(X_AB, B1, p1);
        perr[0] = (dot(p, p) - d * d) / 2;
    }
    void calcPositionDotErrors(const State& s, const Array_<SpatialVec, ConstrainedBodyIndex>& V_AB, const Array_<Real, ConstrainedQIndex>&, Array_<Real>& pverr) const override {
        Vec3 p = findStationLocationFromState(s, B2, p2) - findStationLocationFromState(s, B1, p1);
        Vec3 v = findStationVelocity(s, V_AB, B2, p2) - findStationVelocity(s, V_AB, B1, p1);
        pverr[0] = dot(v, p);
    }
    void calcPositionDotDotErrors(const State& s, const Array_<SpatialVec, ConstrainedBodyIndex>& A_AB, const Array_<Real, ConstrainedQIndex>&, Array_<Real>& paerr) const override {
        Vec3 p = findStationLocationFromState(s, B2, p2) - findStationLocationFromState(s, B1, p1);
        Vec3 v = findStationVelocityFromState(s, B2, p2) - findStationVelocityFromState(s, B1, p1);
        Vec3 a = findStationAcceleration(s, A_AB, B2, p2) - findStationAcceleration(s, A_AB, B1, p1);
        paerr[0] = dot(a, p) + dot(v, v);
    }
    void addInPositionConstraintForces(const State& s, const Array_<Real>& mult, Array_<SpatialVec, ConstrainedBodyIndex>& F, Array_<Real, ConstrainedQIndex>&) const override {
        Vec3 p = findStationLocationFromState(s, B2, p2) - findStationLocationFromState(s, B1, p1);
        addInStationForce(s, B2, p2, mult[0] * p, F);
        addInStationForce(s, B1, p1, -mult[0] * p, F);
    }
    ConstrainedBodyIndex B1, B2; Vec3 p1, p2; double d;
};
// nonholonomic: verr = u_a - k u_b - s0 (u_b optional)
class CustomSpeedImpl : public Constraint::Custom::Implementation {
public:
    CustomSpeedImpl(SimbodyMatterSubsystem& matter, MobilizedBody& ma, int ua, MobilizedBody* mb, int ub, double k, double s0)
        : Implementation(matter, 0, 1, 0), ua(ua), ub(ub), k(k), s0(s0), two(mb != nullptr) {
        A = addConstrainedMobilizer(ma); if (two) B = addConstrainedMobilizer(*mb);
    }
    CustomSpeedImpl* clone() const override { return new CustomSpeedImpl(*this); }
    void calcVelocityErrors(const State& s, const Array_<SpatialVec, ConstrainedBodyIndex>&, const Array_<Real, ConstrainedUIndex>& cu, Array_<Real>& verr) const override {
        verr[0] = getOneU(s, cu, A, MobilizerUIndex(ua)) - (two ? k * getOneU(s, cu, B, MobilizerUIndex(ub)) : 0.0) - s0;
    }
    void calcVelocityDotErrors(const State& s, const Array_<SpatialVec, ConstrainedBodyIndex>&, const Array_<Real, ConstrainedUIndex>& cud, Array_<Real>& vaerr) const override {
        vaerr[0] = getOneUDot(s, cud, A, MobilizerUIndex(ua)) - (two ? k * getOneUDot(s, cud, B, MobilizerUIndex(ub)) : 0.0);
    }
    void addInVelocityConstraintForces(const State& s, const Array_<Real>& mult, Array_<SpatialVec, ConstrainedBodyIndex>&, Array_<Real, ConstrainedUIndex>& f) const override {
        addInOneMobilityForce(s, A, MobilizerUIndex(ua), mult[0], f);
        if (two) addInOneMobilityForce(s, B, MobilizerUIndex(ub), -k * mult[0], f);
    }
    ConstrainedMobilizerIndex A, B; int ua, ub; double k, s0; bool two;
};
// holonomic on coordinates: perr = q_a + cc sin(q_b) - off (q_b = q_a if only one coordinate)
class CustomQCouplerImpl : public Constraint::Custom::Implementation {
public:
    CustomQCouplerImpl(SimbodyMatterSubsystem& matter, MobilizedBody& ma, int qa, MobilizedBody* mb, int qb, double cc, double off)
        : Implementation(matter, 1, 0, 0), qa(qa), qb(qb), cc(cc), off(off) {
        A = addConstrainedMobilizer(ma); B = mb ? addConstrainedMobilizer(*mb) : A; if (!mb) this->qb = qa;
    }
    CustomQCouplerImpl* clone() const override { return new CustomQCouplerImpl(*this); }
    void calcPositionErrors(const State& s, const Array_<Transform, ConstrainedBodyIndex>&, const Array_<Real, ConstrainedQIndex>& cq, Array_<Real>& perr) const override {
        perr[0] = getOneQ(s, cq, A, MobilizerQIndex(qa)) + cc * std::sin(getOneQ(s, cq, B, MobilizerQIndex(qb))) - off;
    }
    void calcPositionDotErrors(const State& s, const Array_<SpatialVec, ConstrainedBodyIndex>&, const Array_<Real, ConstrainedQIndex>& cqd, Array_<Real>& pverr) const override {
        double qbv = getOneQFromState(s, B, MobilizerQIndex(qb));
        pverr[0] = getOneQDot(s, cqd, A, MobilizerQIndex(qa)) + cc * std::cos(qbv) * getOneQDot(s, cqd, B, MobilizerQIndex(qb));
    }
    void calcPositionDotDotErrors(const State& s, const Array_<SpatialVec, ConstrainedBodyIndex>&, const Array_<Real, ConstrainedQIndex>& cqdd, Array_<Real>& paerr) const override {
        double qbv = getOneQFromState(s, B, MobilizerQIndex(qb)), qbd = getOneQDotFromState(s, B, MobilizerQIndex(qb));
        paerr[0] = getOneQDotDot(s, cqdd, A, MobilizerQIndex(qa)) + cc * std::cos(qbv) * getOneQDotDot(s, cqdd, B, MobilizerQIndex(qb)) - cc * std::sin(qbv) * qbd * qbd;
    }
    void addInPositionConstraintForces(const State& s, const Array_<Real>& mult, Array_<SpatialVec, ConstrainedBodyIndex>&, Array_<Real, ConstrainedQIndex>& fq) const override {
        double qbv = getOneQFromState(s, B, MobilizerQIndex(qb));
        addInOneQForce(s, A, MobilizerQIndex(qa), mult[0], fq);
        addInOneQForce(s, B, MobilizerQIndex(qb), mult[0] * cc * std::cos(qbv), fq);
    }
    ConstrainedMobilizerIndex A, B; int qa, qb; double cc, off;
};

// ------------------------------------------------------------------ constraint catalogue
enum CType {
    CT_Rod, CT_Ball, CT_Weld, CT_PointInPlane, CT_PointOnLine, CT_ConstantAngle, CT_ConstantOrientation, CT_NoSlip1D,
    CT_ConstantCoordinate, CT_ConstantSpeed, CT_ConstantAcceleration, CT_CoordinateCoupler, CT_SpeedCoupler, CT_PrescribedMotion,
    CT_PointOnPlaneContact, CT_SphereOnPlaneContact, CT_SphereOnPlaneContactRoll, CT_SphereOnSphereContact, CT_SphereOnSphereContactRoll,
    CT_LineOnLineContact, CT_LineOnLineContactRoll, CT_CustomRod, CT_CustomSpeed, CT_CustomQCoupler, CT_Count
};
static const char* ctName(int t) {   // name of the constraint class (used in violation keys)
    static const char* n[] = {"Rod", "Ball", "Weld", "PointInPlane", "PointOnLine", "ConstantAngle", "ConstantOrientation", "NoSlip1D",
                              "ConstantCoordinate", "ConstantSpeed", "ConstantAcceleration", "CoordinateCoupler", "SpeedCoupler", "PrescribedMotion",
                              "PointOnPlaneContact", "SphereOnPlaneContact", "SphereOnPlaneContact", "SphereOnSphereContact", "SphereOnSphereContact",
                              "LineOnLineContact", "LineOnLineContact", "Custom-Rod", "Custom-Speed", "Custom-QCoupler"};
    return n[t];
}
static bool ctRoll(int t) { return t == CT_SphereOnPlaneContactRoll || t == CT_SphereOnSphereContactRoll || t == CT_LineOnLineContactRoll; }
static std::string ctVariant(int t) { return std::string(ctName(t)) + (ctRoll(t) ? "/roll" : ""); }
static bool ctBodyBased(int t) {
    switch (t) { case CT_ConstantCoordinate: case CT_ConstantSpeed: case CT_ConstantAcceleration: case CT_CoordinateCoupler: case CT_SpeedCoupler:
                 case CT_PrescribedMotion: case CT_CustomSpeed: case CT_CustomQCoupler: return false; default: return true; }
}
static bool ctUsesQ(int t) { return t == CT_ConstantCoordinate || t == CT_CoordinateCoupler || t == CT_PrescribedMotion || t == CT_CustomQCoupler; }
// number of equations (mp, mv, ma)
static void ctEqs(int t, int& mp, int& mv, int& ma) {
    mp = mv = ma = 0;
    switch (t) {
    case CT_Rod: case CT_PointInPlane: case CT_ConstantAngle: case CT_ConstantCoordinate: case CT_CoordinateCoupler: case CT_PrescribedMotion:
    case CT_SphereOnPlaneContact: case CT_SphereOnSphereContact: case CT_LineOnLineContact: case CT_CustomRod: case CT_CustomQCoupler: mp = 1; break;
    case CT_Ball: case CT_ConstantOrientation: mp = 3; break;
    case CT_Weld: mp = 6; break;
    case CT_PointOnLine: mp = 2; break;
    case CT_NoSlip1D: case CT_ConstantSpeed: case CT_SpeedCoupler: case CT_CustomSpeed: mv = 1; break;
    case CT_ConstantAcceleration: ma = 1; break;
    case CT_PointOnPlaneContact: case CT_SphereOnPlaneContactRoll: case CT_SphereOnSphereContactRoll: case CT_LineOnLineContactRoll: mp = 1; mv = 2; break;
    }
}

// complete, rebuildable description of one constraint instance
struct ConSpec {
    int type = CT_Rod;
    int b[3] = {-1, -1, -1};                       // node indices (-1 Ground); b[2]: NoSlip1D case body
    std::vector<std::pair<int, int>> coords, speeds;   // (node, q index) / (node, u index) for mobilizer-based types
    uint64_t sub = 0;                              // sub-seed of the random parameters
    bool tuned = false;                            // parameters chosen so that perr = 0 at the reference configuration
    bool workless = false;                         // ask for a workless parameterisation where the type allows a choice
    bool disabled = false; bool disabledByDefault = false;
    Json toJson() const {
        Json j = Json::obj(); j.set("type", ctVariant(type)).set("b0", b[0]).set("b1", b[1]).set("b2", b[2]).set("tuned", tuned).set("workless", workless).set("disabled", disabled).set("sub", std::to_string(sub));
        Json cq = Json::arr(); for (auto& p : coords) cq.push(Json::arr().push(p.first).push(p.second)); j.set("coords", cq);
        Json cu = Json::arr(); for (auto& p : speeds) cu.push(Json::arr().push(p.first).push(p.second)); j.set("speeds", cu);
        return j;
    }
};
// is the constraint, as parameterised by addConstraint(), workless (power = -lambda.uerr)?
static bool specIsWorkless(const ConSpec& cs) {
    switch (cs.type) {
    case CT_PrescribedMotion: case CT_ConstantAcceleration: return false;
    case CT_ConstantSpeed: case CT_SpeedCoupler: case CT_CustomSpeed: return cs.workless;
    default: return true;
    }
}
// reference kinematics of the bare tree at the tested configuration (index 0 = Ground, k+1 = node k)
struct RefKin { std::vector<Transform> X; Vector q, u; double t = 0; std::vector<int> nq, nu, qStart, uStart; };
static const Transform& RX(const RefKin& k, int node) { return k.X[node + 1]; }

// parameters remembered for the closed-form predictions of the by-design deviations
struct BuiltCon {
    Constraint c; ConSpec spec;
    Vec3 P_C; UnitVec3 n_C;         // NoSlip1D
    Vec3 cF, cB; double rF = 0, rB = 0; // SphereOnSphereContact
};

static MobilizedBody& bodyOf(Model& m, int node) { return node < 0 ? (MobilizedBody&)m.matter.updGround() : m.bodies[node]; }

// Create the constraint described by cs in model m. All random parameters come from cs.sub;
// tuned parameters are derived from the reference kinematics. Returns false (reason set) if a
// geometric precondition cannot be met.
static bool addConstraint(Model& m, const ConSpec& cs, const RefKin& ref, BuiltCon& out, std::string& why) {
    Rng pr(cs.sub);
    out.spec = cs;
    SimbodyMatterSubsystem& matter = m.matter;
    const int t = cs.type;
    Constraint con;
    if (ctBodyBased(t)) {
        MobilizedBody& B0 = bodyOf(m, cs.b[0]); MobilizedBody& B1 = bodyOf(m, cs.b[1]);
        const Transform& X0 = RX(ref, cs.b[0]); const Transform& X1 = RX(ref, cs.b[1]);
        switch (t) {
        case CT_Rod: case CT_CustomRod: {
            Vec3 p1, p2; double dist = 0; bool ok = false;
            for (int k = 0; k < 30 && !ok; ++k) { p1 = randVec3(pr, 0.8); p2 = randVec3(pr, 0.8); dist = (X1 * p2 - X0 * p1).norm(); ok = dist >= 0.2; }
            if (!ok) { why = "rod-endpoints-coincident"; return false; }
            double d = cs.tuned ? dist : pr.uni(0.3, 2.0);
            if (t == CT_Rod) con = Constraint::Rod(B0, p1, B1, p2, d);
            else con = Constraint::Custom(new CustomRodImpl(matter, B0, p1, B1, p2, d));
            break; }
        case CT_Ball: {
            Vec3 p1 = randVec3(pr, 0.8), p2 = randVec3(pr, 0.8);
            if (cs.tuned) p2 = ~X1 * (X0 * p1);
            con = Constraint::Ball(B0, p1, B1, p2); break; }
        case CT_Weld: {
            Transform F1 = randFrame(pr, 2), F2 = randFrame(pr, 2);
            if (cs.tuned) F2 = ~X1 * X0 * F1;
            con = Constraint::Weld(B0, F1, B1, F2); break; }
        case CT_PointInPlane: {
            UnitVec3 n = randUnit(pr); Vec3 p = randVec3(pr, 0.8); double h = pr.sym(1.0);
            if (cs.tuned) h = dot(Vec3(n), ~X0 * (X1 * p));
            con = Constraint::PointInPlane(B0, n, h, B1, p); break; }
        case CT_PointOnLine: {
            UnitVec3 d = randUnit(pr); Vec3 p = randVec3(pr, 0.8), p0 = randVec3(pr, 0.8); double al = pr.sym(1.0);
            if (cs.tuned) p0 = ~X0 * (X1 * p) + al * Vec3(d);
            con = Constraint::PointOnLine(B0, d, p0, B1, p); break; }
        case CT_ConstantAngle: {
            UnitVec3 a0, a1; double ang = 0; bool ok = false;
            for (int k = 0; k < 40 && !ok; ++k) { a0 = randUnit(pr); a1 = randUnit(pr); double cth = dot(X0.R() * a0, X1.R() * a1); ang = std::acos(std::max(-1.0, std::min(1.0, cth))); ok = ang >= 0.4 && ang <= Pi - 0.4; }
            if (!ok) { why = "constant-angle-near-singular"; return false; }
            double angle = cs.tuned ? ang : pr.uni(0.5, Pi - 0.5);
            con = Constraint::ConstantAngle(B0, a0, B1, a1, angle); break; }
        case CT_ConstantOrientation: {
            Rotation R0 = randRotation(pr), R1 = randRotation(pr);
            if (cs.tuned) R1 = ~X1.R() * X0.R() * R0;
            con = Constraint::ConstantOrientation(B0, R0, B1, R1); break; }
        case CT_NoSlip1D: {
            MobilizedBody& C = bodyOf(m, cs.b[2]);
            out.P_C = randVec3(pr, 0.8); out.n_C = randUnit(pr);
            con = Constraint::NoSlip1D(C, out.P_C, out.n_C, B0, B1); break; }
        case CT_PointOnPlaneContact: {
            Rotation R = randRotation(pr); Vec3 p = randVec3(pr, 0.8), org = randVec3(pr, 0.8); double a = pr.sym(0.7), b = pr.sym(0.7);
            if (cs.tuned) org = ~X0 * (X1 * p) + R * Vec3(a, b, 0);
            con = Constraint::PointOnPlaneContact(B0, Transform(R, org), B1, p); break; }
        case CT_SphereOnPlaneContact: case CT_SphereOnPlaneContactRoll: {
            Rotation R = randRotation(pr); Vec3 cen = randVec3(pr, 0.8), org = randVec3(pr, 0.8); double rad = pr.uni(0.2, 0.8), a = pr.sym(0.7), b = pr.sym(0.7);
            if (cs.tuned) org = ~X0 * (X1 * cen) - R * Vec3(a, b, rad);
            con = Constraint::SphereOnPlaneContact(B0, Transform(R, org), B1, cen, rad, ctRoll(t)); break; }
        case CT_SphereOnSphereContact: case CT_SphereOnSphereContactRoll: {
            Vec3 cF, cB; double dist = 0; bool ok = false;
            for (int k = 0; k < 30 && !ok; ++k) { cF = randVec3(pr, 0.8); cB = randVec3(pr, 0.8); dist = (X1 * cB - X0 * cF).norm(); ok = dist >= 0.3; }
            if (!ok) { why = "sphere-centers-coincident"; return false; }
            double fr = pr.uni(0.3, 0.7), rF = pr.uni(0.2, 0.8), rB = pr.uni(0.2, 0.8);
            if (cs.tuned) { rF = dist * fr; rB = dist * (1 - fr); }
            out.cF = cF; out.cB = cB; out.rF = rF; out.rB = rB;
            con = Constraint::SphereOnSphereContact(B0, cF, rF, B1, cB, rB, ctRoll(t)); break; }
        case CT_LineOnLineContact: case CT_LineOnLineContactRoll: {
            Transform EF, EB; bool ok = false; Vec3 nG(0);
            for (int k = 0; k < 60 && !ok; ++k) {
                EF = randFrame(pr, 2); EB = randFrame(pr, 2);
                Vec3 df = X0.R() * EF.x(), db = X1.R() * EB.x(), sf = X0.R() * EF.z(), sb = X1.R() * EB.z();
                Vec3 w = df % db; double sn = w.norm(); if (sn < 0.4) continue;
                double wsf = dot(w, sf) / sn, wsb = dot(w, sb) / sn;
                if (std::max(std::fabs(wsf), std::fabs(wsb)) < 0.3 || std::fabs(std::fabs(wsf) - std::fabs(wsb)) < 0.05) continue;
                nG = w / sn; ok = true;
            }
            if (!ok) { why = "line-on-line-near-parallel"; return false; }
            if (cs.tuned) { double rr = dot((X1 * EB.p()) - (X0 * EF.p()), nG); EB.updP() = EB.p() - ~X1.R() * (rr * nG); }
            con = Constraint::LineOnLineContact(B0, EF, pr.uni(0.5, 2), B1, EB, pr.uni(0.5, 2), ctRoll(t)); break; }
        default: throw std::logic_error("addConstraint: bad body-based type");
        }
    } else {
        auto qOf = [&](const std::pair<int, int>& p) { return ref.q[ref.qStart[p.first] + p.second]; };
        switch (t) {
        case CT_ConstantCoordinate: {
            double pos = qOf(cs.coords[0]) + (cs.tuned ? 0.0 : pr.sym(0.5));
            con = Constraint::ConstantCoordinate(m.bodies[cs.coords[0].first], MobilizerQIndex(cs.coords[0].second), pos); break; }
        case CT_ConstantSpeed: {
            double sp = cs.workless ? 0.0 : pr.sym(1.0);
            con = Constraint::ConstantSpeed(m.bodies[cs.speeds[0].first], MobilizerUIndex(cs.speeds[0].second), sp); break; }
        case CT_ConstantAcceleration:
            con = Constraint::ConstantAcceleration(m.bodies[cs.speeds[0].first], MobilizerUIndex(cs.speeds[0].second), pr.sym(2.0)); break;
        case CT_CoordinateCoupler: {
            CoupFunc* f = new CoupFunc; int n = (int)cs.coords.size();
            for (int i = 0; i < n; ++i) f->a.push_back((pr.coin() ? 1 : -1) * pr.uni(0.4, 1.5));
            f->b = pr.sym(0.5); f->c = pr.sym(0.5); f->off = pr.sym(1.0);
            Array_<MobilizedBodyIndex> mb; Array_<MobilizerQIndex> qi; Vector x(n);
            for (int i = 0; i < n; ++i) { mb.push_back(m.bodies[cs.coords[i].first].getMobilizedBodyIndex()); qi.push_back(MobilizerQIndex(cs.coords[i].second)); x[i] = qOf(cs.coords[i]); }
            if (cs.tuned) { f->off = 0; f->off = f->calcValue(x); }
            con = Constraint::CoordinateCoupler(matter, f, mb, qi); break; }
        case CT_SpeedCoupler: {
            SpeedFunc* f = new SpeedFunc; int n = (int)cs.speeds.size();
            for (int i = 0; i < n; ++i) f->a.push_back((pr.coin() ? 1 : -1) * pr.uni(0.4, 1.5));
            f->ncoord = (int)cs.coords.size(); f->e = pr.sym(0.6); f->b = cs.workless ? 0.0 : pr.sym(0.3); f->off = cs.workless ? 0.0 : pr.sym(1.0);
            Array_<MobilizedBodyIndex> mb, cb; Array_<MobilizerUIndex> ui; Array_<MobilizerQIndex> qi;
            for (int i = 0; i < n; ++i) { mb.push_back(m.bodies[cs.speeds[i].first].getMobilizedBodyIndex()); ui.push_back(MobilizerUIndex(cs.speeds[i].second)); }
            for (auto& p : cs.coords) { cb.push_back(m.bodies[p.first].getMobilizedBodyIndex()); qi.push_back(MobilizerQIndex(p.second)); }
            if (f->ncoord) con = Constraint::SpeedCoupler(matter, f, mb, ui, cb, qi); else con = Constraint::SpeedCoupler(matter, f, mb, ui);
            break; }
        case CT_PrescribedMotion: {
            TimeFunc* f = new TimeFunc; f->b = pr.sym(1.0); f->c = pr.sym(0.5); f->w = pr.uni(0.5, 3.0); f->a = pr.sym(1.0);
            if (cs.tuned) f->a = qOf(cs.coords[0]) - f->b * ref.t - f->c * std::sin(f->w * ref.t);
            con = Constraint::PrescribedMotion(matter, f, m.bodies[cs.coords[0].first].getMobilizedBodyIndex(), MobilizerQIndex(cs.coords[0].second)); break; }
        case CT_CustomSpeed: {
            double k = (pr.coin() ? 1 : -1) * pr.uni(0.3, 2.0), s0 = cs.workless ? 0.0 : pr.sym(1.0);
            MobilizedBody* mb = cs.speeds.size() > 1 ? &m.bodies[cs.speeds[1].first] : nullptr;
            con = Constraint::Custom(new CustomSpeedImpl(matter, m.bodies[cs.speeds[0].first], cs.speeds[0].second, mb, mb ? cs.speeds[1].second : 0, k, s0)); break; }
        case CT_CustomQCoupler: {
            double cc = pr.sym(0.8), off = pr.sym(1.0);
            bool two = cs.coords.size() > 1;
            if (cs.tuned) off = qOf(cs.coords[0]) + cc * std::sin(qOf(two ? cs.coords[1] : cs.coords[0]));
            MobilizedBody* mb = two ? &m.bodies[cs.coords[1].first] : nullptr;
            con = Constraint::Custom(new CustomQCouplerImpl(matter, m.bodies[cs.coords[0].first], cs.coords[0].second, mb, two ? cs.coords[1].second : 0, cc, off)); break; }
        default: throw std::logic_error("addConstraint: bad mobilizer-based type");
        }
    }
    if (cs.disabledByDefault) con.setDisabledByDefault(true);
    out.c = con;
    return true;
}

// ------------------------------------------------------------------ tree topology helpers
static std::vector<int> chainUp(const ModelDesc& d, int node) { std::vector<int> c; for (int x = node; x >= 0; x = d.nodes[x].parent) c.push_back(x); c.push_back(-1); return c; } // node ... root, Ground
static int commonAncestor(const ModelDesc& d, const std::vector<int>& nodes) {
    int A = nodes[0];
    for (size_t i = 1; i < nodes.size(); ++i) {
        std::vector<int> ca = chainUp(d, A), cb = chainUp(d, nodes[i]);
        int found = -1;
        for (int x : ca) { if (std::find(cb.begin(), cb.end(), x) != cb.end()) { found = x; break; } }
        A = found;
    }
    return A;
}
enum AttachClass { AC_Ground, AC_ParentChild, AC_AncestorDescendant, AC_BranchesG, AC_BranchesB, AC_Count };
static const char* acName(int a) { static const char* n[] = {"ground-body", "parent-child", "ancestor-descendant", "branches(A=Ground)", "branches(A=body)"}; return n[a]; }
static int classify(const ModelDesc& d, int a, int b) {
    if (a < 0 || b < 0) return AC_Ground;
    if (d.nodes[a].parent == b || d.nodes[b].parent == a) return AC_ParentChild;
    int A = commonAncestor(d, {a, b});
    if (A == a || A == b) return AC_AncestorDescendant;
    return A < 0 ? AC_BranchesG : AC_BranchesB;
}
// mobilizer types on the constrained path(s): from each constrained body up to the ancestor A
static std::string pathTypes(const ModelDesc& d, const std::vector<int>& nodes, bool bodyBased) {
    std::set<std::string> s;
    if (bodyBased) {
        int A = commonAncestor(d, nodes);
        for (int n : nodes) for (int x = n; x >= 0 && x != A; x = d.nodes[x].parent) s.insert(std::string(mobName(d.nodes[x].type)) + (d.nodes[x].reversed ? "~" : ""));
    } else for (int n : nodes) s.insert(std::string(mobName(d.nodes[n].type)) + (d.nodes[n].reversed ? "~" : ""));
    std::string o; for (auto& x : s) { if (!o.empty()) o += "+"; o += x; }
    return o.empty() ? "-" : o;
}
static int pathDofs(const ModelDesc& d, const RefKin& ref, const std::vector<int>& nodes, bool bodyBased) {
    std::set<int> on;
    if (bodyBased) { int A = commonAncestor(d, nodes); for (int n : nodes) for (int x = n; x >= 0 && x != A; x = d.nodes[x].parent) on.insert(x); }
    else for (int n : nodes) on.insert(n);
    int k = 0; for (int x : on) k += ref.nu[x];
    return k;
}

// Build the bare tree at the tested configuration and record its kinematics.
static bool makeRef(Ctx& c, const ModelDesc& d, uint64_t qseed, double t0, double uScale, RefKin& ref) {
    Model m; m.build(d);
    State s = m.init();
    Rng rq(qseed); randomQU(m, s, rq, false, uScale);
    s.setTime(t0);
    m.sys.realize(s, Stage::Position);
    if (!sphericalOK(m, s)) { c.skip("spherical-singularity"); return false; }
    ref.X.clear(); ref.X.push_back(Transform());
    ref.nq.clear(); ref.nu.clear(); ref.qStart.clear(); ref.uStart.clear();
    for (auto& b : m.bodies) { ref.X.push_back(b.getBodyTransform(s)); ref.nq.push_back(b.getNumQ(s)); ref.nu.push_back(b.getNumU(s)); ref.qStart.push_back(b.getNumQ(s) ? (int)b.getFirstQIndex(s) : 0); ref.uStart.push_back(b.getNumU(s) ? (int)b.getFirstUIndex(s) : 0); }
    ref.q = s.getQ(); ref.u = s.getU(); ref.t = t0;
    return true;
}

// pick the mobilizer coordinates / speeds a mobilizer-based constraint acts on
static bool pickMobilizers(const ModelDesc& d, const RefKin& ref, int type, int variant, Rng& r, ConSpec& cs) {
    std::vector<std::pair<int, int>> allQ, allU;
    for (size_t k = 0; k < d.nodes.size(); ++k) { for (int i = 0; i < ref.nq[k]; ++i) allQ.push_back({(int)k, i}); for (int i = 0; i < ref.nu[k]; ++i) allU.push_back({(int)k, i}); }
    auto take = [&](std::vector<std::pair<int, int>>& pool, int n, std::vector<std::pair<int, int>>& out) {
        for (int i = 0; i < n && !pool.empty(); ++i) { size_t j = r.next() % pool.size(); out.push_back(pool[j]); pool.erase(pool.begin() + j); }
    };
    int nwant = 1 + variant % 3;
    switch (type) {
    case CT_ConstantCoordinate: case CT_PrescribedMotion: take(allQ, 1, cs.coords); return cs.coords.size() == 1;
    case CT_ConstantSpeed: case CT_ConstantAcceleration: take(allU, 1, cs.speeds); return cs.speeds.size() == 1;
    case CT_CoordinateCoupler: take(allQ, nwant, cs.coords); return !cs.coords.empty();
    case CT_SpeedCoupler: take(allU, nwant, cs.speeds); if ((variant / 3) % 2) take(allQ, 1, cs.coords); return !cs.speeds.empty();
    case CT_CustomSpeed: take(allU, 1 + variant % 2, cs.speeds); return !cs.speeds.empty();
    case CT_CustomQCoupler: take(allQ, 1 + variant % 2, cs.coords); return !cs.coords.empty();
    }
    return false;
}
static std::vector<int> specNodes(const ConSpec& cs) {
    std::vector<int> n;
    if (ctBodyBased(cs.type)) { n.push_back(cs.b[0]); n.push_back(cs.b[1]); if (cs.type == CT_NoSlip1D) n.push_back(cs.b[2]); }
    else { for (auto& p : cs.speeds) n.push_back(p.first); if (cs.type != CT_SpeedCoupler) for (auto& p : cs.coords) n.push_back(p.first); }
    return n;
}

// kinematics of body B relative to (and expressed in) frame A, from Ground quantities
static SpatialVec velInA(const Transform& X_GA, const SpatialVec& V_GA, const Transform& X_GB, const SpatialVec& V_GB) {
    Vec3 w = ~X_GA.R() * (V_GB[0] - V_GA[0]);
    Vec3 v = ~X_GA.R() * (V_GB[1] - V_GA[1] - V_GA[0] % (X_GB.p() - X_GA.p()));
    return SpatialVec(w, v);
}

// System::project() as a legal client would use it: a nonlinear constraint may need more than one call
// ("you might need a better starting configuration"); up to 4 calls, each starting from the last result.
static bool projectWithRetries(const MultibodySystem& sys, State& s, double acc, std::string& msg, bool velocityOnly = false) {
    for (int attempt = 0; attempt < 4; ++attempt) {
        try { if (velocityOnly) sys.projectU(s, acc); else sys.project(s, acc); return true; }
        catch (const std::exception& e) { msg = e.what(); if (!allFinite(s.getQ()) || !allFinite(s.getU())) return false; }
    }
    return false;
}

// ====================================================================================== C07
struct C07Case {
    Model m; State s; BuiltCon bc;
    int mp = 0, mv = 0, ma = 0, mt = 0, nu = 0, nq = 0, nb = 0;
    double t0 = 0;
};

// Closed-form predictions of the documented "coincident material point" deviations.
// velocity level: returns the mp-vector  d/dt(perr) - pverr  predicted for generalized speeds ulike
static Vector predictVel(const C07Case& k, const Vector& ulike) {
    Vector pred(k.mp, 0.0);
    int t = k.bc.spec.type;
    if (t != CT_Ball && t != CT_Weld) return pred;
    const SimbodyMatterSubsystem& matter = k.m.matter; const State& s = k.s;
    Vector_<SpatialVec> V; matter.multiplyBySystemJacobian(s, ulike, V);
    const MobilizedBody& A = k.bc.c.getAncestorMobilizedBody();
    const MobilizedBody& B1 = k.bc.c.getMobilizedBodyFromConstrainedBody(ConstrainedBodyIndex(0));
    SpatialVec V_AB = velInA(A.getBodyTransform(s), V[A.getMobilizedBodyIndex()], B1.getBodyTransform(s), V[B1.getMobilizedBodyIndex()]);
    int off = (t == CT_Weld) ? 3 : 0;
    Vec3 perr(s.getQErr()[off], s.getQErr()[off + 1], s.getQErr()[off + 2]);
    Vec3 d = V_AB[0] % perr;
    for (int i = 0; i < 3; ++i) pred[off + i] = d[i];
    return pred;
}
// acceleration level: returns the (mp+mv)-vector  d/dt(uerr) - [paerr;vaerr]  predicted at the state
static Vector predictAcc(const C07Case& k) {
    Vector pred(k.mp + k.mv, 0.0);
    int t = k.bc.spec.type;
    const SimbodyMatterSubsystem& matter = k.m.matter; const State& s = k.s;
    if (t == CT_Ball || t == CT_Weld) {
        const MobilizedBody& A = k.bc.c.getAncestorMobilizedBody();
        const MobilizedBody& B1 = k.bc.c.getMobilizedBodyFromConstrainedBody(ConstrainedBodyIndex(0));
        SpatialVec V_AB = velInA(A.getBodyTransform(s), A.getBodyVelocity(s), B1.getBodyTransform(s), B1.getBodyVelocity(s));
        int off = (t == CT_Weld) ? 3 : 0;
        Vec3 pverr(s.getUErr()[off], s.getUErr()[off + 1], s.getUErr()[off + 2]);
        Vec3 d = -(V_AB[0] % pverr);
        for (int i = 0; i < 3; ++i) pred[off + i] = d[i];
    } else if (t == CT_SphereOnSphereContactRoll) {
        // The rolling rows are measured along the x,y axes of a contact frame that the library rebuilds
        // from the centre line at every configuration (Rotation::setRotationFromOneAxis), while its
        // acceleration-level rows assume that frame does not spin about the centre line relative to F.
        // sigma = spin of the actual frame relative to the assumed one; d/dt verr - vaerr = sigma*(verr_y, -verr_x).
        const MobilizedBody& A = k.bc.c.getAncestorMobilizedBody();
        const MobilizedBody& F = k.bc.c.getMobilizedBodyFromConstrainedBody(ConstrainedBodyIndex(0));
        const MobilizedBody& B = k.bc.c.getMobilizedBodyFromConstrainedBody(ConstrainedBodyIndex(1));
        const Transform& X_GA = A.getBodyTransform(s); const SpatialVec& V_GA = A.getBodyVelocity(s);
        Transform X_AF = ~X_GA * F.getBodyTransform(s), X_AB = ~X_GA * B.getBodyTransform(s);
        SpatialVec V_AF = velInA(X_GA, V_GA, F.getBodyTransform(s), F.getBodyVelocity(s)), V_AB = velInA(X_GA, V_GA, B.getBodyTransform(s), B.getBodyVelocity(s));
        Vec3 rF = X_AF.R() * k.bc.cF, rB = X_AB.R() * k.bc.cB;
        Vec3 p = (X_AB.p() + rB) - (X_AF.p() + rF); double rr = p.norm(); Vec3 Cz = p / rr;
        Vec3 pd = (V_AB[1] + V_AB[0] % rB) - (V_AF[1] + V_AF[0] % rF);
        Vec3 Czd = (pd - dot(pd, Cz) * Cz) / rr;
        auto cx = [&](double tau) { Rotation R; R.setRotationFromOneAxis(UnitVec3(Cz + tau * Czd), ZAxis); return Vec3(R.x()); };
        Rotation R0; R0.setRotationFromOneAxis(UnitVec3(Cz), ZAxis);
        const double h = 1e-3;
        Vec3 dCx = (cx(-2 * h) - cx(2 * h) + 8.0 * (cx(h) - cx(-h))) / (12 * h);
        double sigma = dot(Vec3(R0.y()), dCx) - dot(V_AF[0], Cz);
        pred[k.mp + 0] = sigma * s.getUErr()[k.mp + 1];
        pred[k.mp + 1] = -sigma * s.getUErr()[k.mp + 0];
    } else if (t == CT_NoSlip1D) {
        const MobilizedBody& A = k.bc.c.getAncestorMobilizedBody();
        const MobilizedBody& C = matter.getMobilizedBody(Constraint::NoSlip1D::downcast(k.bc.c).getCaseMobilizedBodyIndex());
        const MobilizedBody& M0 = matter.getMobilizedBody(Constraint::NoSlip1D::downcast(k.bc.c).getMovingBodyMobilizedBodyIndex(0));
        const MobilizedBody& M1 = matter.getMobilizedBody(Constraint::NoSlip1D::downcast(k.bc.c).getMovingBodyMobilizedBodyIndex(1));
        const Transform& X_GA = A.getBodyTransform(s); const SpatialVec& V_GA = A.getBodyVelocity(s);
        auto XA = [&](const MobilizedBody& b) { return ~X_GA * b.getBodyTransform(s); };
        auto VA = [&](const MobilizedBody& b) { return velInA(X_GA, V_GA, b.getBodyTransform(s), b.getBodyVelocity(s)); };
        Transform X_AC = XA(C), X_A0 = XA(M0), X_A1 = XA(M1);
        SpatialVec V_AC = VA(C), V_A0 = VA(M0), V_A1 = VA(M1);
        Vec3 p_AP = X_AC * k.bc.P_C; Vec3 n_A = X_AC.R() * Vec3(k.bc.n_C);
        Vec3 v_AP = V_AC[1] + V_AC[0] % (p_AP - X_AC.p());
        Vec3 v_AP0 = V_A0[1] + V_A0[0] % (p_AP - X_A0.p());
        Vec3 v_AP1 = V_A1[1] + V_A1[0] % (p_AP - X_A1.p());
        pred[k.mp + 0] = dot(n_A, V_A1[0] % (v_AP - v_AP1) - V_A0[0] % (v_AP - v_AP0));
    }
    return pred;
}

static void runC07Regime(Ctx& c, long idx, const ModelDesc& d, const ConSpec& cs0, const RefKin& ref, uint64_t qseed, bool onManifold, int attachClass, Rng& r) {
    const std::string T = ctVariant(cs0.type);          // type/variant for keys
    const std::string Tn = ctName(cs0.type);
    const char* regime = onManifold ? "on-manifold" : "off-manifold";
    C07Case k; k.t0 = ref.t;
    ConSpec cs = cs0; cs.tuned = onManifold;
    c.setPhase("C07 build " + T + " " + regime);
    k.m.build(d);
    std::string why;
    if (!addConstraint(k.m, cs, ref, k.bc, why)) { c.skip(why); return; }
    k.s = k.m.init();
    State& s = k.s; const SimbodyMatterSubsystem& matter = k.m.matter; const MultibodySystem& sys = k.m.sys;
    s.updQ() = ref.q; s.updU() = ref.u; s.setTime(ref.t);
    sys.realize(s, Stage::Instance);
    k.bc.c.getNumConstraintEquationsInUse(s, k.mp, k.mv, k.ma);
    k.mt = k.mp + k.mv + k.ma; k.nu = s.getNU(); k.nq = s.getNQ(); k.nb = matter.getNumBodies();
    const int mp = k.mp, mv = k.mv, ma = k.ma, mt = k.mt, nu = k.nu, nq = k.nq;
    { int emp, emv, ema; ctEqs(cs.type, emp, emv, ema);
      c.require("shape:equation-counts:" + Tn, mp == emp && mv == emv && ma == ema, [&] { return Json::obj().set("type", T).set("mp", mp).set("mv", mv).set("ma", ma); }); }
    if (onManifold) {
        c.setPhase("C07 project " + T);
        std::string msg;
        if (!projectWithRetries(sys, s, 1e-11, msg)) { c.obs("project-threw:" + Tn); if (c.args.verbose) fprintf(stderr, "project threw: %s\n", msg.c_str()); c.skip("project-failed"); return; }
        sys.realize(s, Stage::Velocity);
        if (!allFinite(s.getQ()) || !allFinite(s.getU())) { c.obs("project-left-nonfinite-state:" + Tn); c.skip("project-nonfinite"); return; }
        double qe = mp ? vmaxabs(s.getQErr()(0, mp)) : 0.0, ue = (mp + mv) ? vmaxabs(s.getUErr()) : 0.0;
        if (qe > 1e-9 || ue > 1e-9) { c.skip("not-on-manifold-after-project"); return; }
        if (!sphericalOK(k.m, s)) { c.skip("spherical-singularity"); return; }
    }
    sys.realize(s, Stage::Velocity);
    // All oracles are local to one <t,q,u>: they are applied first to the state as generated and then again
    // after the SAME State object has been changed in u only, in q only (and in time only for time-dependent
    // constraints) and re-realized, so that results cached at the previous <t,q,u> must not leak through.
    auto judge = [&](const std::string& sfx, bool light) {
        const Vector q0 = s.getQ(), u0 = s.getU(); const double t0 = s.getTime();
        Json wit = Json::obj().set("model", d.toJson()).set("constraint", cs.toJson()).set("regime", regime).set("attach", acName(attachClass)).set("q", jV(q0)).set("u", jV(u0)).set("t", t0).set("pass", sfx.empty() ? "first evaluation" : sfx.c_str() + 1);
        auto W = [&](const char* what) { return [=]() { Json j = wit; j.set("what", what); return j; }; };

        const Vector qerr = s.getQErr(), uerr = s.getUErr();
        c.require("finite:errors:" + Tn + sfx, allFinite(qerr) && allFinite(uerr), W("qerr/uerr has NaN/Inf"));
        // constraint-level accessors agree with the State's slices (single constraint => offset 0)
        if (mp) c.check("accessors:getPositionErrorsAsVector:" + Tn + sfx, vdiff(k.bc.c.getPositionErrorsAsVector(s), sub(qerr, 0, mp)), E1 * (vmaxabs(qerr) + 1), W("Constraint::getPositionErrorsAsVector != State qerr slice"));
        if (mp + mv) c.check("accessors:getVelocityErrorsAsVector:" + Tn + sfx, vdiff(k.bc.c.getVelocityErrorsAsVector(s), uerr), E1 * (vmaxabs(uerr) + 1), W("Constraint::getVelocityErrorsAsVector != State uerr"));

        // ---------------------------------------------------------------- G by its routes (iii)
        c.setPhase("C07 G routes " + T);
        Matrix G, Gt, PV, PVt, P, Pt, Pq, Pqt;
        matter.calcG(s, G); matter.calcGTranspose(s, Gt);
        c.require("finite:G:" + Tn + sfx, finiteM(G) && finiteM(Gt), W("calcG/calcGTranspose has NaN/Inf"));
        c.require("shape:G:" + Tn + sfx, G.nrow() == mt && G.ncol() == nu && Gt.nrow() == nu && Gt.ncol() == mt, W("calcG/calcGTranspose wrong shape"));
        const double nG = mmaxabs(G) + 1e-3, tolG = E1 * nG;
        c.check("G:calcG-vs-calcGTranspose:" + Tn + sfx, mdiffT(G, Gt), tolG, W("calcG != (calcGTranspose)^T"));
        {
            Vector bias; matter.calcBiasForMultiplyByG(s, bias);
            Vector aerr0; matter.calcConstraintAccelerationErrors(s, Vector(nu, 0.0), aerr0);
            Vector aerrE; matter.calcConstraintAccelerationErrors(s, Vector(), aerrE);
            Vector biasA; matter.calcBiasForAccelerationConstraints(s, biasA);
            c.check("G:bias-operator-vs-empty-udot:" + Tn + sfx, vdiff(aerrE, biasA), E1 * (vmaxabs(biasA) + 1), W("calcConstraintAccelerationErrors(empty udot) != calcBiasForAccelerationConstraints"));
            // documented: an empty udot means all-zero udot; the bias is the error at udot = 0
            c.check("bias:calcBiasForAccelerationConstraints-vs-zero-udot:" + Tn + sfx, vdiff(aerr0, biasA), E1 * (vmaxabs(aerr0) + 1), [&] { Json j = wit; j.set("what", "calcBiasForAccelerationConstraints / calcConstraintAccelerationErrors(empty) != calcConstraintAccelerationErrors(udot = 0)").set("zero_udot", jV(aerr0)).set("empty_udot", jV(aerrE)).set("biasOp", jV(biasA)); return j; });
            double e2 = 0, e3 = 0, e5 = 0;
            for (int j = 0; j < nu; ++j) {
                Vector e(nu, 0.0), o1, o2, o3; e[j] = 1;
                matter.multiplyByG(s, e, o1); matter.multiplyByG(s, e, bias, o2);
                matter.calcConstraintAccelerationErrors(s, e, o3);
                for (int i = 0; i < mt; ++i) { e2 = std::max(e2, std::fabs(o1[i] - G(i, j))); e3 = std::max(e3, std::fabs(o2[i] - G(i, j))); e5 = std::max(e5, std::fabs(o3[i] - aerr0[i] - G(i, j))); }
            }
            c.check("G:calcG-vs-multiplyByG:" + Tn + sfx, std::max(e2, e3), tolG, W("calcG column != multiplyByG(e_j)"));
            c.check("G:calcG-vs-accelerationErrors:" + Tn + sfx, e5, tolG + E1 * (vmaxabs(aerr0)), W("calcG column != calcConstraintAccelerationErrors(e_j) - bias"));
            double e4 = 0;
            for (int i = 0; i < mt; ++i) { Vector l(mt, 0.0), f; l[i] = 1; matter.multiplyByGTranspose(s, l, f); for (int j = 0; j < nu; ++j) e4 = std::max(e4, std::fabs(f[j] - G(i, j))); }
            c.check("G:calcG-vs-multiplyByGTranspose:" + Tn + sfx, e4, tolG, W("calcG row != multiplyByGTranspose(e_i)"));
        }
        matter.calcPV(s, PV); matter.calcPVTranspose(s, PVt); matter.calcP(s, P); matter.calcPt(s, Pt);
        {
            Matrix Gpv(mp + mv, nu), Gp(mp, nu);
            for (int i = 0; i < mp + mv; ++i) for (int j = 0; j < nu; ++j) { Gpv(i, j) = G(i, j); if (i < mp) Gp(i, j) = G(i, j); }
            c.check("G:calcPV/calcP-submatrices:" + Tn + sfx, std::max(std::max(mdiff(PV, Gpv), mdiffT(Gpv, PVt)), std::max(mdiff(P, Gp), mdiffT(Gp, Pt))), tolG, W("calcPV/calcPVTranspose/calcP/calcPt != rows of calcG"));
            double e = 0;
            for (int rep = 0; rep < 2 && mp + mv > 0; ++rep) {
                Vector x = randVector(r, nu), l = randVector(r, mp + mv), o, f; matter.multiplyByPV(s, x, o); matter.multiplyByPVTranspose(s, l, f);
                e = std::max(e, std::max(vdiff(o, Vector(Gpv * x)), vdiff(f, Vector(~Gpv * l))));
            }
            c.check("G:multiplyByPV-routes:" + Tn + sfx, e, tolG * nu, W("multiplyByPV / multiplyByPVTranspose != calcG rows"));
        }
        // ---------------------------------------------------------------- Pq routes and Pq = dqerr/dq (ii)
        matter.calcPq(s, Pq); matter.calcPqTranspose(s, Pqt);
        c.require("shape:Pq:" + Tn + sfx, Pq.nrow() == mp && Pq.ncol() == nq && Pqt.nrow() == nq && Pqt.ncol() == mp, W("calcPq/calcPqTranspose wrong shape"));
        if (mp > 0) {
            c.setPhase("C07 Pq " + T);
            const double nP = mmaxabs(Pq) + 1e-3;
            // Pq and P are related through N on the feasible subspace (qdot = N u): Pq*N = P. Directions of q
            // outside range(N) (quaternion scaling, spin of a Line mobilizer) carry no kinematic meaning, so
            // the transposed route is compared after mapping with N as well; raw mismatches are counted only.
            double e1 = 0, e2 = 0;
            for (int i = 0; i < mp; ++i) {
                Vector qrow(nq), qrow2(nq), o1, o2; for (int j = 0; j < nq; ++j) { qrow[j] = Pq(i, j); qrow2[j] = Pqt(j, i); }
                matter.multiplyByN(s, true, qrow, o1); matter.multiplyByN(s, true, qrow2, o2);
                for (int j = 0; j < nu; ++j) { e1 = std::max(e1, std::fabs(o1[j] - G(i, j))); e2 = std::max(e2, std::fabs(o2[j] - G(i, j))); }
            }
            c.check("Pq:calcPq*N=P:" + Tn + sfx, e1, E1 * (nP + nG) * 4, W("calcPq*N != P (holonomic rows of calcG)"));
            c.check("Pq:calcPqTranspose^T*N=P:" + Tn + sfx, e2, E1 * (nP + nG) * 4, W("(calcPqTranspose)^T*N != P (holonomic rows of calcG)"));
            if (mdiffT(Pq, Pqt) > E1 * nP) c.obs("side:calcPq!=calcPqTranspose^T-outside-range(N):" + Tn);
            Vector biasp; matter.calcBiasForMultiplyByPq(s, biasp);
            double eo = 0, eot = 0;
            for (int rep = 0; rep < 2; ++rep) {
                Vector x = randVector(r, nq), l = randVector(r, mp), o1, o2, f;
                matter.multiplyByPq(s, x, o1); matter.multiplyByPq(s, x, biasp, o2); matter.multiplyByPqTranspose(s, l, f);
                eo = std::max(eo, std::max(vdiff(o1, Vector(Pq * x)), vdiff(o2, Vector(Pq * x))));
                eot = std::max(eot, vdiff(f, Vector(Pqt * l)));
            }
            c.check("Pq:multiplyByPq=calcPq*x:" + Tn + sfx, eo, E1 * nP * nq, W("multiplyByPq(x) != calcPq*x"));
            c.check("Pq:multiplyByPqTranspose=calcPqTranspose*l:" + Tn + sfx, eot, E1 * nP * nq, W("multiplyByPqTranspose(l) != calcPqTranspose*l"));
            // finite differences along random directions in q
            State w = s;
            bool pqKnown = false; double pqPredMax = 0;
            for (int rep = 0; rep < 3; ++rep) {
                Vector vdir = randVector(r, nu), dir; matter.multiplyByN(s, false, vdir, dir);   // feasible direction in q
                auto f = [&](double tau) { w.updQ() = q0 + tau * dir; sys.realize(w, Stage::Position); return Vector(w.getQErr()(0, mp)); };
                Vector fd; double dis; fd5(f, 2e-3, fd, dis);
                Vector Pd = Pq * dir;
                double scale = std::max(1.0, std::max(vmaxabs(Pd), rowSumMax(Pq) * vmaxabs(dir)));
                double tol = E2 * scale;
                if (dis > tol / 10) { c.skip("fd-disagree:Pq"); continue; }
                Vector pred = predictVel(k, vdir);
                c.check("Pq:FD-dqerr/dq:" + Tn + sfx, vmaxabs(Vector(fd - Pd - pred)), tol, [&] { Json j = wit; j.set("what", "Pq*d != d/dtau qerr(q+tau*d), d=N*v (after removing the predicted material-point term)").set("fd", jV(fd)).set("Pq_d", jV(Pd)).set("predicted", jV(pred)).set("dir", jV(dir)); return j; });
                if (vmaxabs(pred) > 100 * tol) { pqKnown = true; pqPredMax = std::max(pqPredMax, vmaxabs(pred)); }
            }
            if (!light) {   // probe: an arbitrary (not necessarily feasible) direction; observation only
                Vector dir = randVector(r, nq);
                auto f = [&](double tau) { w.updQ() = q0 + tau * dir; sys.realize(w, Stage::Position); return Vector(w.getQErr()(0, mp)); };
                Vector fd; double dis; fd5(f, 2e-3, fd, dis);
                Vector Pd = Pq * dir, ud; matter.multiplyByNInv(s, false, dir, ud);
                Vector pred = predictVel(k, ud);
                double tol = E2 * std::max(1.0, rowSumMax(Pq) * vmaxabs(dir));
                if (dis <= tol / 10 && vmaxabs(Vector(fd - Pd - pred)) > tol) c.obs("side:Pq*d!=dqerr/dq-for-d-outside-range(N):path=" + pathTypes(d, specNodes(cs), ctBodyBased(cs.type)) + (d.euler ? "/euler" : "/quat"));
            }
            if (pqKnown) c.viol("material-point-formulation:" + Tn + ":Pq", Json(wit).set("what", "calcPq differs from dqerr/dq by the closed-form term w_AB x perr (coincident-material-point formulation)").set("predicted_max", pqPredMax));
        }
        // ---------------------------------------------------------------- derivative hierarchy (i)
        Vector qdot0; matter.multiplyByN(s, false, u0, qdot0);
        if (mp > 0) {
            c.setPhase("C07 hierarchy qerr->uerr " + T);
            State w = s;
            auto f = [&](double tau) { w.setTime(t0 + tau); w.updQ() = q0 + tau * qdot0; sys.realize(w, Stage::Position); return Vector(w.getQErr()(0, mp)); };
            Vector fd; double dis; fd5(f, 2e-3, fd, dis);
            Vector pv = sub(uerr, 0, mp);
            double scale = std::max(1.0, std::max(vmaxabs(pv), rowSumMax(Pq) * vmaxabs(qdot0)));
            double tol = E2 * scale;
            if (dis > tol / 10) c.skip("fd-disagree:qerr->uerr");
            else {
                Vector pred = predictVel(k, u0);
                c.check("hierarchy:qerr->uerr:" + Tn + sfx, vmaxabs(Vector(fd - pv - pred)), tol, [&] { Json j = wit; j.set("what", "d/dt qerr along qdot=N*u != holonomic part of uerr (after removing the predicted material-point term)").set("fd", jV(fd)).set("uerr", jV(pv)).set("predicted", jV(pred)); return j; });
                if (vmaxabs(pred) > 100 * tol) c.viol("material-point-formulation:" + Tn + ":velocity", Json(wit).set("what", "uerr differs from d/dt qerr by the closed-form term w_AB x perr (coincident-material-point formulation)").set("predicted", jV(pred)).set("fd_minus_uerr", jV(Vector(fd - pv))));
            }
        }
        if (mp + mv > 0) {
            c.setPhase("C07 hierarchy uerr->udoterr " + T);
            Vector udot = randVector(r, nu, 2.0);
            Vector aerr; matter.calcConstraintAccelerationErrors(s, udot, aerr);
            c.require("finite:udoterr:" + Tn + sfx, allFinite(aerr), W("calcConstraintAccelerationErrors has NaN/Inf"));
            State w = s;
            auto f = [&](double tau) { w.setTime(t0 + tau); w.updQ() = q0 + tau * qdot0; w.updU() = u0 + tau * udot; sys.realize(w, Stage::Velocity); return Vector(w.getUErr()); };
            Vector fd; double dis; fd5(f, 2e-3, fd, dis);
            Vector pva = sub(aerr, 0, mp + mv);
            double scale = std::max(1.0, std::max(vmaxabs(pva), rowSumMax(G) * vmaxabs(udot)));
            double tol = E2 * scale;
            if (dis > tol / 10) c.skip("fd-disagree:uerr->udoterr");
            else {
                Vector pred = predictAcc(k);
                c.check("hierarchy:uerr->udoterr:" + Tn + sfx, vmaxabs(Vector(fd - pva - pred)), tol, [&] { Json j = wit; j.set("what", "d/dt uerr along (qdot=N*u, udot) != calcConstraintAccelerationErrors(udot) (after removing the predicted material-point term)").set("fd", jV(fd)).set("udoterr", jV(pva)).set("predicted", jV(pred)).set("udot", jV(udot)); return j; });
                if (vmaxabs(pred) > 100 * tol) c.viol(std::string(cs.type == CT_SphereOnSphereContactRoll ? "contact-frame-spin:" : "material-point-formulation:") + Tn + ":acceleration", Json(wit).set("what", cs.type == CT_SphereOnSphereContactRoll ? "udoterr differs from d/dt uerr by the closed-form term sigma*(verr_y,-verr_x): the contact frame's x,y axes spin about the centre line" : "udoterr differs from d/dt uerr by the closed-form coincident-material-point term").set("predicted", jV(pred)).set("fd_minus_udoterr", jV(Vector(fd - pva))));
            }
        }
        // ---------------------------------------------------------------- virtual work (iv)
        if (mt > 0) {
            c.setPhase("C07 virtual work " + T);
            Vector lam = randVector(r, mt, 2.0), uu = randVector(r, nu);
            Vector f; matter.multiplyByGTranspose(s, lam, f);
            Vector_<SpatialVec> FG; Vector fm; matter.calcConstraintForcesFromMultipliers(s, lam, FG, fm);
            c.require("shape:constraint-forces:" + Tn + sfx, FG.size() == k.nb && fm.size() == nu, W("calcConstraintForcesFromMultipliers wrong sizes"));
            Vector JtF; matter.multiplyBySystemJacobianTranspose(s, FG, JtF);
            double fsc = vmaxabs(f) + vmaxabs(JtF) + vmaxabs(fm) + 1e-3;
            c.check("virtualwork:G^T*lambda=J^T*F+f:" + Tn + sfx, vdiff(f, Vector(JtF + fm)), E1 * fsc * 10, W("multiplyByGTranspose(lambda) != J^T*bodyForces + mobilityForces from calcConstraintForcesFromMultipliers"));
            Vector_<SpatialVec> Vu; matter.multiplyBySystemJacobian(s, uu, Vu);
            double pw = 0, psc = 0; for (int b = 0; b < k.nb; ++b) { pw += ~FG[b] * Vu[b]; psc += 6 * spMax(FG[b]) * spMax(Vu[b]); }
            for (int j = 0; j < nu; ++j) { pw += fm[j] * uu[j]; psc += std::fabs(fm[j] * uu[j]); }
            Vector Gu = G * uu; double lhs = ~lam * Gu; for (int i = 0; i < mt; ++i) psc += std::fabs(lam[i] * Gu[i]);
            c.check("virtualwork:<lambda,G*u>=<F,V(u)>+<f,u>:" + Tn + sfx, std::fabs(lhs - pw), E1 * (psc + 1e-3) * 10, [&] { Json j = wit; j.set("what", "<lambda, calcG*u> != power of the forces produced from lambda along u").set("lhs", lhs).set("rhs", pw); return j; });
            // per-constraint force operator (ancestor frame) against the system-level one
            Vector_<SpatialVec> FA; Vector fc; k.bc.c.calcConstraintForcesFromMultipliers(s, lam, FA, fc);
            int ncb = k.bc.c.getNumConstrainedBodies(), ncu = k.bc.c.getNumConstrainedU(s);
            bool okShape = FA.size() == ncb && fc.size() == ncu;
            c.require("shape:per-constraint-forces:" + Tn + sfx, okShape, W("Constraint::calcConstraintForcesFromMultipliers wrong sizes"));
            if (okShape) {
                Vector_<SpatialVec> F2(k.nb, SpatialVec(Vec3(0), Vec3(0))); Vector f2(nu, 0.0);
                if (ncb) { const Rotation& R_GA = k.bc.c.getAncestorMobilizedBody().getBodyTransform(s).R();
                           for (int i = 0; i < ncb; ++i) { int b = k.bc.c.getMobilizedBodyFromConstrainedBody(ConstrainedBodyIndex(i)).getMobilizedBodyIndex(); F2[b] += SpatialVec(R_GA * FA[i][0], R_GA * FA[i][1]); } }
                for (int i = 0; i < ncu; ++i) f2[k.bc.c.getUIndexOfConstrainedU(s, ConstrainedUIndex(i))] += fc[i];
                double e = vdiff(f2, fm), sc = vmaxabs(fm) + 1e-3; for (int b = 0; b < k.nb; ++b) { e = std::max(e, spMax(F2[b] - FG[b])); sc = std::max(sc, spMax(FG[b])); }
                c.check("virtualwork:per-constraint-forces:" + Tn + sfx, e, E1 * sc * 10, W("Constraint::calcConstraintForcesFromMultipliers (in A) != system-level forces (in G)"));
            }
        }
        // ---------------------------------------------------------------- State's udoterr is the operator's (needs the multiplier solve; equality holds for any rank)
        {
            c.setPhase("C07 realize acceleration " + T);
            State& w = s;   // the State itself is taken to Acceleration stage: the reuse passes below start from there
            try {
                sys.realize(w, Stage::Acceleration);
                if (allFinite(w.getUDot())) {
                    Vector ae; matter.calcConstraintAccelerationErrors(w, w.getUDot(), ae);
                    c.check("udoterr:state-vs-operator:" + Tn + sfx, vdiff(ae, w.getUDotErr()), E1 * (vmaxabs(ae) + rowSumMax(G) * vmaxabs(w.getUDot()) + 1), W("State::getUDotErr != calcConstraintAccelerationErrors(getUDot)"));
                    if (mt) c.check("accessors:getAccelerationErrorsAsVector:" + Tn + sfx, vdiff(k.bc.c.getAccelerationErrorsAsVector(w), w.getUDotErr()), E1 * (vmaxabs(w.getUDotErr()) + 1), W("Constraint::getAccelerationErrorsAsVector != State udoterr"));
                } else c.obs("nonfinite-udot-single-constraint:" + Tn);
            } catch (const std::exception& e) { c.obs(std::string("realize-acceleration-threw:") + Tn); }
        }
    };
    judge("", false);
    {   c.setPhase("C07 reuse: u-only change " + T);
        s.updU() = randVector(r, nu, 1.0);
        sys.realize(s, Stage::Velocity);
        judge(":after-u-only-change", true); }
    {   c.setPhase("C07 reuse: q-only change " + T);
        Vector v = randVector(r, nu), dq; matter.multiplyByN(s, false, v, dq);
        s.updQ() = s.getQ() + 0.15 * dq;
        if (!d.euler) for (size_t b = 0; b < k.m.bodies.size(); ++b) if (mobHasQuat(d.nodes[b].type)) {   // keep quaternions normalized
            Vector qb = k.m.bodies[b].getQAsVector(s); double nrm = std::sqrt(qb[0] * qb[0] + qb[1] * qb[1] + qb[2] * qb[2] + qb[3] * qb[3]);
            for (int i = 0; i < 4; ++i) qb[i] /= nrm; k.m.bodies[b].setQFromVector(s, qb); }
        sys.realize(s, Stage::Position);
        if (!sphericalOK(k.m, s)) c.skip("spherical-singularity(after-q-only-change)");
        else { sys.realize(s, Stage::Velocity); judge(":after-q-only-change", true); } }
    if (cs.type == CT_PrescribedMotion) {
        c.setPhase("C07 reuse: time-only change " + T);
        s.setTime(s.getTime() + 0.37);
        sys.realize(s, Stage::Velocity);
        judge(":after-time-only-change", true); }

    std::vector<int> nodes = specNodes(cs);
    c.cover(T + "|" + (ctBodyBased(cs.type) ? acName(attachClass) : "mobilizer") + "|" + regime + "|" + pathTypes(d, nodes, ctBodyBased(cs.type)));
    if (c.wantSample()) c.sample(Json::obj().set("model", d.shortStr()).set("constraint", cs.toJson()).set("regime", regime).set("mp", mp).set("mv", mv).set("ma", ma));
}

static void checkC07(Ctx& c, long idx, Rng& r, int forceType) {
    const int type = forceType >= 0 ? forceType : (int)(idx % CT_Count);
    const int wantClass = (int)((idx / CT_Count) % AC_Count);
    const int variant = (int)(idx / CT_Count);
    GenOpts o; o.minBodies = 2; o.maxBodies = 5; o.forceCycle = false; o.pLoneParticle = 0.03;
    ModelDesc d; ConSpec cs; cs.type = type; cs.sub = r.next();
    int attach = AC_Ground;
    RefKin ref; uint64_t qseed = 0; double t0 = r.uni(0.0, 2.0);
    c.setPhase("C07 generate");
    bool found = false;
    for (int attempt = 0; attempt < 8 && !found; ++attempt) {
        d = randomDesc(r, o, idx);
        int n = (int)d.nodes.size();
        if (ctBodyBased(type)) {
            std::vector<std::array<int, 2>> match, any;
            for (int a = -1; a < n; ++a) for (int b = -1; b < n; ++b) { if (a == b) continue; any.push_back({a, b}); if (classify(d, a, b) == wantClass) match.push_back({a, b}); }
            if (match.empty() && attempt < 7) continue;
            auto& pool = match.empty() ? any : match;
            if (pool.empty()) continue;
            auto pr = pool[r.next() % pool.size()];
            cs.b[0] = pr[0]; cs.b[1] = pr[1]; attach = classify(d, pr[0], pr[1]);
            if (type == CT_NoSlip1D) {   // case body: Ground, one of the moving bodies, or a third body
                int sel = variant % 3; cs.b[2] = -1;
                if (sel == 1) cs.b[2] = r.coin() ? cs.b[0] : cs.b[1];
                else if (sel == 2) { std::vector<int> others; for (int x = 0; x < n; ++x) if (x != cs.b[0] && x != cs.b[1]) others.push_back(x); if (!others.empty()) cs.b[2] = others[r.next() % others.size()]; }
            }
            found = true;
        } else found = true;
    }
    if (!found) { c.skip("no-attachment-available"); return; }
    qseed = r.next();
    if (!makeRef(c, d, qseed, t0, 1.0, ref)) return;
    if (!ctBodyBased(type)) { if (!pickMobilizers(d, ref, type, variant, r, cs)) { c.skip("no-mobilities-for-constraint"); return; } }
    if (c.args.verbose) fprintf(stderr, "C07 case %ld: %s attach=%s model=%s\n", idx, ctVariant(type).c_str(), acName(attach), d.shortStr().c_str());
    Rng r1(mix(qseed, 1)), r2(mix(qseed, 2));
    runC07Regime(c, idx, d, cs, ref, qseed, false, attach, r1);
    runC07Regime(c, idx, d, cs, ref, qseed, true, attach, r2);
}

// ====================================================================================== C08
struct Scenario {
    ModelDesc d; std::vector<ConSpec> cons; bool gravity = false; Vec3 g = Vec3(0);
    uint64_t fseed = 0, qseed = 0; double t0 = 0; int redClass = 0; bool workless = false;
};
struct Built08 {
    Model m; State s; std::vector<BuiltCon> bc;   // bc[i] <-> the i-th constraint actually added
    std::vector<int> specIx;                       // index into Scenario::cons
    std::unique_ptr<Force::DiscreteForces> disc;
    bool realized = false; std::string err;
};
// mode 0: every constraint added (disabled ones present but disabled); 1: disabled ones left out;
// 2: as 0 but the disabled constraints get different parameters.
static bool buildScenario(Built08& b, const Scenario& sc, const RefKin& ref, int mode, std::string& why) {
    b.m.build(sc.d);
    b.disc.reset(new Force::DiscreteForces(b.m.forces, b.m.matter));
    if (sc.gravity) Force::UniformGravity(b.m.forces, b.m.matter, sc.g);
    for (size_t i = 0; i < sc.cons.size(); ++i) {
        ConSpec cs = sc.cons[i];
        if (cs.disabled && mode == 1) continue;
        if (cs.disabled && mode == 2) { cs.sub = mix(cs.sub, 77); cs.tuned = false; }
        BuiltCon bc;
        if (!addConstraint(b.m, cs, ref, bc, why)) return false;
        b.bc.push_back(bc); b.specIx.push_back((int)i);
    }
    b.s = b.m.init();
    b.s.updQ() = ref.q; b.s.updU() = ref.u; b.s.setTime(ref.t);
    for (auto& bc : b.bc) if (bc.spec.disabled && !bc.spec.disabledByDefault) bc.c.disable(b.s);
    b.m.sys.realize(b.s, Stage::Instance);
    Rng rf(sc.fseed);
    int nu = b.s.getNU(), nb = b.m.matter.getNumBodies();
    b.disc->setAllMobilityForces(b.s, randVector(rf, nu, 3));
    b.disc->setAllBodyForces(b.s, randBodyForces(rf, nb, 3));
    return true;
}

static void checkC08(Ctx& c, long idx, Rng& r) {
    c.setPhase("C08 generate");
    Scenario sc; sc.redClass = (int)(idx % 3); sc.workless = ((idx / 3) % 2) == 0;
    GenOpts o; o.minBodies = 2; o.maxBodies = 6; o.forceCycle = false; o.pLoneParticle = 0.0;
    o.types = {MT_Free, MT_Free, MT_Ball, MT_Ball, MT_Gimbal, MT_Bushing, MT_Pin, MT_Slider, MT_Universal, MT_Cylinder, MT_Planar, MT_Translation, MT_Screw,
               MT_BendStretch, MT_Ellipsoid, MT_LineOrientation, MT_FreeLine, MT_SphericalCoords, MT_CantileverFreeBeam, MT_Free, MT_Bushing, MT_Weld};
    sc.d = randomDesc(r, o, idx);
    sc.qseed = r.next(); sc.fseed = r.next(); sc.t0 = r.uni(0, 2); sc.gravity = r.coin(); sc.g = randVec3(r, 9.8);
    RefKin ref;
    if (!makeRef(c, sc.d, sc.qseed, sc.t0, 1.0, ref)) return;
    const int n = (int)sc.d.nodes.size();
    int nuTot = 0; for (int x : ref.nu) nuTot += x;
    if (nuTot < 2) { c.skip("too-few-mobilities"); return; }
    const int nWant = 1 + (int)((idx / 6) % 6);
    int mTot = 0;
    auto allowedType = [&](int t) { return !sc.workless || (t != CT_PrescribedMotion && t != CT_ConstantAcceleration); };
    auto tryAdd = [&](int type, bool tuned, int variant) -> bool {
        ConSpec cs; cs.type = type; cs.sub = r.next(); cs.tuned = tuned; cs.workless = sc.workless;
        if (ctBodyBased(type)) {
            std::vector<std::array<int, 2>> pool; for (int a = -1; a < n; ++a) for (int b = -1; b < n; ++b) if (a != b) pool.push_back({a, b});
            auto pr = pool[r.next() % pool.size()]; cs.b[0] = pr[0]; cs.b[1] = pr[1];
            if (type == CT_NoSlip1D) { int sel = variant % 3; cs.b[2] = sel == 0 ? -1 : sel == 1 ? cs.b[0] : (int)(r.next() % n); }
        } else if (!pickMobilizers(sc.d, ref, type, variant, r, cs)) return false;
        int mp, mv, ma; ctEqs(type, mp, mv, ma); int me = mp + mv + ma;
        if (pathDofs(sc.d, ref, specNodes(cs), ctBodyBased(type)) < me) return false;   // more equations than dofs on the path: over-constrained placement
        if (mTot + me > nuTot - 1) return false;
        sc.cons.push_back(cs); mTot += me; return true;
    };
    // redundancy by construction
    int protectedFrom = -1;   // constraints from this index on must stay enabled
    if (sc.redClass == 2) {
        // a loop closed twice on an assembled configuration: a Weld plus a constraint the Weld implies
        bool ok = false;
        for (int att = 0; att < 20 && !ok; ++att) {
            ConSpec w; w.type = CT_Weld; w.sub = r.next(); w.tuned = true; w.workless = sc.workless;
            int a = r.integer(-1, n - 1), b = r.integer(-1, n - 1); if (a == b) continue;
            w.b[0] = a; w.b[1] = b;
            if (pathDofs(sc.d, ref, {a, b}, true) < 6 || 6 + 3 > nuTot - 1) continue;
            static const int extras[] = {CT_Ball, CT_ConstantOrientation, CT_Weld, CT_PointOnLine, CT_PointInPlane, CT_Rod, CT_ConstantAngle, CT_CustomRod, CT_PointOnPlaneContact, CT_SphereOnPlaneContact, CT_SphereOnSphereContact};
            ConSpec e; e.type = extras[(idx / 3 + att) % 11]; e.sub = r.next(); e.tuned = true; e.workless = sc.workless; e.b[0] = r.coin() ? a : b; e.b[1] = e.b[0] == a ? b : a;
            int mp, mv, ma; ctEqs(e.type, mp, mv, ma);
            if (6 + mp + mv > nuTot - 1) continue;
            sc.cons.push_back(w); sc.cons.push_back(e); mTot += 6 + mp + mv; ok = true;
        }
        if (!ok) sc.redClass = 0; else protectedFrom = 0;
    }
    int guardIter = 0;
    const size_t nBase = sc.cons.size();
    while ((int)(sc.cons.size() - nBase) < nWant - (sc.redClass == 2 ? 1 : 0) && guardIter++ < 40) {
        int type = (guardIter == 1) ? (int)((idx / 3) % CT_Count) : r.integer(0, CT_Count - 1);
        if (!allowedType(type)) continue;
        tryAdd(type, sc.redClass == 2 ? true : r.coin(), (int)(idx / 3 + guardIter));
    }
    if (sc.cons.empty()) { c.skip("no-constraint-placeable"); return; }
    // enable mask
    for (size_t i = (protectedFrom == 0 ? 2 : 0); i < sc.cons.size(); ++i) if (r.coin(0.25)) { sc.cons[i].disabled = true; sc.cons[i].disabledByDefault = r.coin(); }
    { bool any = false; for (auto& x : sc.cons) any = any || !x.disabled; if (!any) { sc.cons[0].disabled = false; sc.cons[0].disabledByDefault = false; } }
    if (sc.redClass == 1) {   // duplicate one enabled constraint exactly
        std::vector<int> en; for (size_t i = 0; i < sc.cons.size(); ++i) if (!sc.cons[i].disabled) en.push_back((int)i);
        ConSpec dup = sc.cons[en[r.next() % en.size()]];
        int mp, mv, ma; ctEqs(dup.type, mp, mv, ma);
        if (mTot + mp + mv + ma > nuTot) sc.redClass = 0; else sc.cons.push_back(dup);
    }
    Json wit = Json::obj().set("model", sc.d.toJson()).set("redundancy", sc.redClass == 0 ? "none" : sc.redClass == 1 ? "duplicated" : "loop").set("gravity", sc.gravity).set("workless", sc.workless);
    { Json cj = Json::arr(); for (auto& x : sc.cons) cj.push(x.toJson()); wit.set("constraints", cj); }
    auto W = [&](const char* what) { return [=]() { Json j = wit; j.set("what", what); return j; }; };
    if (c.args.verbose) fprintf(stderr, "C08 case %ld: %s\n", idx, wit.dump().c_str());

    // ---------------------------------------------------------------- model A
    c.setPhase("C08 build A");
    Built08 A; std::string why;
    if (!buildScenario(A, sc, ref, 0, why)) { c.skip(why); return; }
    const SimbodyMatterSubsystem& matter = A.m.matter; const MultibodySystem& sys = A.m.sys; State& s = A.s;
    const int nu = s.getNU(), nb = matter.getNumBodies();
    if (sc.redClass == 2) {
        c.setPhase("C08 project (loop class)");
        std::string msg;
        if (!projectWithRetries(sys, s, 1e-11, msg)) { c.obs("project-threw"); c.skip("project-failed"); return; }
        sys.realize(s, Stage::Velocity);
        int mpA = s.getNQErr() - matter.getNumQuaternionsInUse(s);
        if ((mpA ? vmaxabs(s.getQErr()(0, mpA)) : 0.0) > 1e-9 || (s.getNUErr() ? vmaxabs(s.getUErr()) : 0.0) > 1e-9) { c.skip("not-on-manifold-after-project"); return; }
        if (!sphericalOK(A.m, s)) { c.skip("spherical-singularity"); return; }
        ref.q = s.getQ(); ref.u = s.getU();   // the differential partners are built at the projected state
    }
    c.setPhase("C08 realize A");
    sys.realize(s, Stage::Acceleration);
    const int mp = s.getNQErr() - matter.getNumQuaternionsInUse(s), mpv = s.getNUErr(), m = s.getNUDotErr();
    const Vector udot = s.getUDot(), lam = s.getMultipliers(), udoterr = s.getUDotErr();
    c.require("finite:acceleration-results", allFinite(udot) && allFinite(lam) && allFinite(udoterr), W("udot / multipliers / udoterr has NaN/Inf"));
    c.require("shape:multipliers", lam.size() == m && matter.getConstraintMultipliers(s).size() == m, W("number of multipliers != number of acceleration-level equations"));
    if (!allFinite(udot) || !allFinite(lam)) return;
    { int em = 0; for (auto& bc : A.bc) { int a, b2, c2; bc.c.getNumConstraintEquationsInUse(s, a, b2, c2); int ea, eb, ec; ctEqs(bc.spec.type, ea, eb, ec);
        bool dis = bc.spec.disabled; c.require("disabled:isDisabled-and-no-equations", bc.c.isDisabled(s) == dis && (dis ? a + b2 + c2 == 0 : (a == ea && b2 == eb && c2 == ec)), W("isDisabled()/equation counts do not reflect the enable mask")); em += a + b2 + c2; }
      c.require("shape:total-equations", em == m, W("sum of per-constraint equation counts != NUDotErr")); }
    if (m == 0) { c.skip("no-enabled-equations"); return; }

    // ---------------------------------------------------------------- consistency guard
    c.setPhase("C08 guard");
    Matrix M, MInv, G; matter.calcM(s, M);
    double condM = condEstimateM(M);
    if (!(condM <= 1e7)) { c.skip("ill-conditioned-M"); return; }
    matter.calcMInv(s, MInv); matter.calcG(s, G);
    Matrix Wm = G * MInv * ~G;
    for (int i = 0; i < m; ++i) for (int j = 0; j < i; ++j) { double a = 0.5 * (Wm(i, j) + Wm(j, i)); Wm(i, j) = Wm(j, i) = a; }
    { Matrix Wlib; matter.calcProjectedMInv(s, Wlib);   // the library's G M^-1 G^T (operator route: G^T by forces, G by errors)
      c.check("W:calcProjectedMInv=G*MInv*G^T", mdiff(Wlib, Wm), (E1 + 1e-13 * condM) * (mmaxabs(Wm) + 1e-3) * m, W("calcProjectedMInv != calcG*calcMInv*calcG^T")); }
    std::vector<double> ev; Matrix EV; jacobiEig(Wm, ev, EV);
    double lmax = 0; for (double x : ev) lmax = std::max(lmax, x);
    if (!(lmax > 0)) { c.skip("zero-constraint-matrix"); return; }
    int rank = 0, ambiguous = 0; double lminBig = lmax;
    for (double x : ev) { if (x > 1e-7 * lmax) { ++rank; lminBig = std::min(lminBig, x); } else if (x > 1e-13 * m * lmax) ++ambiguous; }
    if (ambiguous) { c.skip("ill-conditioned-W"); return; }
    const double condEff = lmax / lminBig;
    const Vector& fApp = sys.getMobilityForces(s, Stage::Dynamics); const Vector_<SpatialVec>& FApp = sys.getRigidBodyForces(s, Stage::Dynamics);
    Vector udot0; Vector_<SpatialVec> A0; matter.calcAccelerationIgnoringConstraints(s, fApp, FApp, udot0, A0);
    Vector aerr0; matter.calcConstraintAccelerationErrors(s, udot0, aerr0);
    const double scaleU = std::max(1.0, std::max(vmaxabs(aerr0), rowSumMax(G) * std::max(vmaxabs(udot), vmaxabs(udot0))));
    const double tolU = (E1 + 1e-13 * condEff) * scaleU;
    bool redundant = rank < m;
    if (redundant) {
        double inc = 0; for (int k2 = 0; k2 < m; ++k2) if (!(ev[k2] > 1e-7 * lmax)) { double d = 0; for (int i = 0; i < m; ++i) d += EV(i, k2) * aerr0[i]; inc = std::max(inc, std::fabs(d)); }
        // The library cannot change the part of the right hand side that lies in the numerical null space
        // of G M^-1 G^T; if that part is not well below the tolerance used for udoterr the set is
        // (numerically) inconsistent: outside the statement.
        if (inc > 0.1 * tolU) {
            if (c.args.verbose) fprintf(stderr, "inconsistent: inc=%g scaleU=%g rank=%d m=%d\n", inc, scaleU, rank, m);
            // (in the duplicated/loop classes this is an accidental deficiency of one of the members, e.g. a
            // rolling contact across a ball joint: the duplicate or implied constraint itself is always consistent)
            c.obs(std::string("rank-deficient-inconsistent:class=") + (sc.redClass == 0 ? "none" : sc.redClass == 1 ? "duplicated" : "loop"));
            c.skip("rank-deficient-inconsistent");
            return;
        }
        c.obs(sc.redClass == 0 ? "rank-deficient-consistent(accidental)" : "rank-deficient-consistent(by-construction)");
    }

    // ---------------------------------------------------------------- acceleration constraints satisfied
    c.setPhase("C08 oracles");
    auto WU = [&](const char* what) { return [=]() { Json j = wit; j.set("what", what).set("udoterr", jV(udoterr)).set("condEff", condEff).set("rank", rank).set("m", m); return j; }; };
    c.check("udoterr:forward-dynamics", vmaxabs(udoterr), tolU, WU("acceleration-level constraint errors not zero after realize(Acceleration)"));
    { Vector ae; matter.calcConstraintAccelerationErrors(s, udot, ae); c.check("udoterr:state-vs-operator", vdiff(ae, udoterr), tolU, W("getUDotErr != calcConstraintAccelerationErrors(getUDot)")); }
    { Vector ud2; Vector_<SpatialVec> A2; matter.calcAcceleration(s, fApp, FApp, ud2, A2);
      c.check("udot:calcAcceleration-vs-realize", vdiff(ud2, udot), (E1 + 1e-13 * condEff + 1e-13 * condM) * (vmaxabs(udot) + 1), W("calcAcceleration operator != realize(Acceleration)"));
      double e = 0, sc2 = 1; for (int b = 0; b < nb; ++b) { e = std::max(e, spMax(A2[b] - matter.getMobilizedBody(MobilizedBodyIndex(b)).getBodyAcceleration(s))); sc2 = std::max(sc2, spMax(A2[b])); }
      c.check("udot:calcAcceleration-A_GB", e, (E1 + 1e-13 * condEff + 1e-13 * condM) * sc2, W("calcAcceleration body accelerations != State's")); }
    // ---------------------------------------------------------------- Newton's law with the reported multipliers
    Vector Gtl; matter.multiplyByGTranspose(s, lam, Gtl);
    {
        Vector res, resI, JtF, Mud; matter.calcResidualForce(s, fApp, FApp, udot, lam, res);
        matter.calcResidualForceIgnoringConstraints(s, fApp, FApp, udot, resI);
        matter.multiplyBySystemJacobianTranspose(s, FApp, JtF); matter.multiplyByM(s, udot, Mud);
        Vector C0; matter.calcResidualForceIgnoringConstraints(s, Vector(nu, 0.0), Vector_<SpatialVec>(), Vector(nu, 0.0), C0);
        double scaleR = vmaxabs(Mud) + vmaxabs(fApp) + vmaxabs(JtF) + vmaxabs(Gtl) + vmaxabs(C0) + 1;
        double tolR = (1e-12 * condM * nu + E1) * scaleR;
        c.check("newton:calcResidualForce(udot,lambda)=0", vmaxabs(res), tolR, [&] { Json j = wit; j.set("what", "M udot + G^T lambda + f_inertial - f_applied != 0 with the reported multipliers").set("residual", jV(res)).set("lambda", jV(lam)); return j; });
        c.check("newton:residual-routes", vdiff(res, Vector(resI + Gtl)), E1 * scaleR, W("calcResidualForce != calcResidualForceIgnoringConstraints + G^T lambda"));
    }
    // ---------------------------------------------------------------- slices
    c.check("multipliers:getConstraintMultipliers", vdiff(matter.getConstraintMultipliers(s), lam), 0.0, W("getConstraintMultipliers != State::getMultipliers"));
    Vector_<SpatialVec> FG; Vector fm; matter.findConstraintForces(s, FG, fm);
    {
        Vector_<SpatialVec> FG2; Vector fm2; matter.calcConstraintForcesFromMultipliers(s, lam, FG2, fm2);
        double e = vdiff(fm, fm2), fsc = vmaxabs(fm) + 1e-3; for (int b = 0; b < nb; ++b) { e = std::max(e, spMax(FG[b] - FG2[b])); fsc = std::max(fsc, spMax(FG[b])); }
        c.check("forces:findConstraintForces-vs-fromMultipliers", e, E1 * fsc, W("findConstraintForces != calcConstraintForcesFromMultipliers(getMultipliers)"));
        Vector JtF; matter.multiplyBySystemJacobianTranspose(s, FG, JtF);
        c.check("forces:J^T*F+f=G^T*lambda", vdiff(Vector(JtF + fm), Gtl), E1 * (vmaxabs(Gtl) + vmaxabs(JtF) + vmaxabs(fm) + 1e-3) * 10, W("constraint forces in the State are not G^T lambda"));
        Vector_<SpatialVec> Fsum(nb, SpatialVec(Vec3(0), Vec3(0))); Vector fsum(nu, 0.0); double psum = 0;
        int sliceBad = 0; double sliceErr = 0, aerrSlice = 0;
        for (auto& bc : A.bc) {
            if (bc.spec.disabled) continue;
            int a, b2, c2; bc.c.getNumConstraintEquationsInUse(s, a, b2, c2);
            MultiplierIndex px, vx, ax; bc.c.getIndexOfMultipliersInUse(s, px, vx, ax);
            Vector mine = bc.c.getMultipliersAsVector(s), mine2, ae = bc.c.getAccelerationErrorsAsVector(s);
            bc.c.getMyPartFromConstraintSpaceVector(s, lam, mine2);
            if (mine.size() != a + b2 + c2 || mine2.size() != a + b2 + c2 || ae.size() != a + b2 + c2) { ++sliceBad; continue; }
            for (int i = 0; i < a; ++i) { sliceErr = std::max(sliceErr, std::max(std::fabs(mine[i] - lam[px + i]), std::fabs(mine2[i] - lam[px + i]))); aerrSlice = std::max(aerrSlice, std::fabs(ae[i] - udoterr[px + i])); }
            for (int i = 0; i < b2; ++i) { sliceErr = std::max(sliceErr, std::max(std::fabs(mine[a + i] - lam[vx + i]), std::fabs(mine2[a + i] - lam[vx + i]))); aerrSlice = std::max(aerrSlice, std::fabs(ae[a + i] - udoterr[vx + i])); }
            for (int i = 0; i < c2; ++i) { sliceErr = std::max(sliceErr, std::max(std::fabs(mine[a + b2 + i] - lam[ax + i]), std::fabs(mine2[a + b2 + i] - lam[ax + i]))); aerrSlice = std::max(aerrSlice, std::fabs(ae[a + b2 + i] - udoterr[ax + i])); }
            Vector_<SpatialVec> Fc; Vector fc; bc.c.getConstraintForcesAsVectors(s, Fc, fc);
            int ncb = bc.c.getNumConstrainedBodies(), ncu = bc.c.getNumConstrainedU(s);
            if (Fc.size() != ncb || fc.size() != ncu) { ++sliceBad; continue; }
            for (int i = 0; i < ncb; ++i) Fsum[bc.c.getMobilizedBodyFromConstrainedBody(ConstrainedBodyIndex(i)).getMobilizedBodyIndex()] += Fc[i];
            for (int i = 0; i < ncu; ++i) fsum[bc.c.getUIndexOfConstrainedU(s, ConstrainedUIndex(i))] += fc[i];
            psum += bc.c.calcPower(s);
        }
        c.require("multipliers:slice-shapes", sliceBad == 0, W("per-constraint multiplier/force vectors have the wrong length"));
        c.check("multipliers:per-constraint-slices", sliceErr, 0.0, W("Constraint::getMultipliersAsVector / getMyPartFromConstraintSpaceVector != slice of State multipliers"));
        c.check("multipliers:per-constraint-udoterr-slices", aerrSlice, 0.0, W("Constraint::getAccelerationErrorsAsVector != slice of State udoterr"));
        double e2 = vdiff(fsum, fm); for (int b = 0; b < nb; ++b) e2 = std::max(e2, spMax(Fsum[b] - FG[b]));
        c.check("forces:sum-of-per-constraint-forces", e2, E1 * fsc * 10, W("sum of Constraint::getConstraintForcesAsVectors != findConstraintForces"));
        // power routes
        double pw = matter.calcConstraintPower(s), ph = 0, psc = 1e-3;
        for (int b = 0; b < nb; ++b) { const SpatialVec& V = matter.getMobilizedBody(MobilizedBodyIndex(b)).getBodyVelocity(s); ph -= ~FG[b] * V; psc += 6 * spMax(FG[b]) * spMax(V); }
        for (int j = 0; j < nu; ++j) { ph -= fm[j] * s.getU()[j]; psc += std::fabs(fm[j] * s.getU()[j]); }
        c.check("power:routes", std::max(std::fabs(pw - ph), std::fabs(pw - psum)), E1 * psc * 10, [&] { Json j = wit; j.set("what", "calcConstraintPower != -(F.V + f.u) or != sum of Constraint::calcPower").set("calcConstraintPower", pw).set("harness", ph).set("sumCalcPower", psum); return j; });
    }
    // ---------------------------------------------------------------- disabled constraints have no effect (differential pairs)
    bool anyDisabled = false; for (auto& x : sc.cons) anyDisabled = anyDisabled || x.disabled;
    Vector_<SpatialVec> reactA; matter.calcMobilizerReactionForces(s, reactA);
    for (int mode = 1; mode <= 2; ++mode) {
        if (mode == 2 && !anyDisabled) break;
        c.setPhase(mode == 1 ? "C08 differential pair: disabled constraints removed" : "C08 differential pair: disabled constraints perturbed");
        Built08 B; std::string why2;
        if (!buildScenario(B, sc, ref, mode, why2)) { c.skip("pair:" + why2); continue; }
        B.m.sys.realize(B.s, Stage::Acceleration);
        const State& t = B.s;
        const std::string tag = mode == 1 ? "removed" : "perturbed";
        bool shapes = t.getNQErr() == s.getNQErr() && t.getNUErr() == s.getNUErr() && t.getNUDotErr() == s.getNUDotErr() && t.getMultipliers().size() == lam.size();
        c.require("disabled:shapes:" + tag, shapes, W("a disabled constraint changes the number of constraint equations"));
        if (!shapes) continue;
        double tolD = (E1 + 1e-13 * condEff + 1e-13 * condM);
        c.check("disabled:qerr-uerr:" + tag, std::max(vdiff(t.getQErr(), s.getQErr()), vdiff(t.getUErr(), s.getUErr())), E1 * (vmaxabs(s.getQErr()) + vmaxabs(s.getUErr()) + 1), W("a disabled constraint changes qerr/uerr of the others"));
        c.check("disabled:udot:" + tag, vdiff(t.getUDot(), udot), tolD * (vmaxabs(udot) + 1), [&] { Json j = wit; j.set("what", "a disabled constraint changes udot").set("udotA", jV(udot)).set("udotB", jV(t.getUDot())); return j; });
        c.check("disabled:udoterr:" + tag, vdiff(t.getUDotErr(), udoterr), tolU, W("a disabled constraint changes udoterr"));
        Vector GtlB; B.m.matter.multiplyByGTranspose(t, t.getMultipliers(), GtlB);
        c.check("disabled:G^T*lambda:" + tag, vdiff(GtlB, Gtl), tolD * (vmaxabs(Gtl) + 1) * 10, W("a disabled constraint changes the generalized constraint force"));
        if (!redundant) c.check("disabled:multipliers:" + tag, vdiff(t.getMultipliers(), lam), tolD * (vmaxabs(lam) + 1) * 10, W("a disabled constraint changes the multipliers of the others"));
        Vector_<SpatialVec> reactB; B.m.matter.calcMobilizerReactionForces(t, reactB);
        double e = 0, rs = 1; for (int b = 0; b < nb; ++b) { e = std::max(e, spMax(reactB[b] - reactA[b])); rs = std::max(rs, spMax(reactA[b])); }
        c.check("disabled:reaction-forces:" + tag, e, tolD * rs * 100, W("a disabled constraint changes mobilizer reaction forces"));
    }
    // ---------------------------------------------------------------- workless sets: zero power on the velocity manifold
    bool allWorkless = true; for (auto& x : sc.cons) if (!x.disabled && !specIsWorkless(x)) allWorkless = false;
    if (allWorkless) {
        c.setPhase("C08 power on the velocity manifold");
        State p = s; std::string msg;
        bool ok = projectWithRetries(sys, p, 1e-12, msg, true);
        if (!ok) { c.obs("projectU-threw"); c.skip("projectU-failed"); }
        else {
            sys.realize(p, Stage::Acceleration);
            double ue = mpv ? vmaxabs(p.getUErr()) : 0.0;
            const Vector& lp = p.getMultipliers();
            if (!allFinite(lp) || !allFinite(p.getUDot())) c.skip("nonfinite-after-projectU");
            else if (ue > 1e-10 * std::max(1.0, vmaxabs(p.getU()))) c.skip("uerr-not-small-after-projectU");
            else {
                Vector_<SpatialVec> F2; Vector f2; matter.findConstraintForces(p, F2, f2);
                double psc = 1e-3, l1 = 0; for (int i = 0; i < lp.size(); ++i) l1 += std::fabs(lp[i]);
                for (int b = 0; b < nb; ++b) psc += 6 * spMax(F2[b]) * spMax(matter.getMobilizedBody(MobilizedBodyIndex(b)).getBodyVelocity(p));
                for (int j = 0; j < nu; ++j) psc += std::fabs(f2[j] * p.getU()[j]);
                double pw = matter.calcConstraintPower(p);
                c.obs("power-on-velocity-manifold-judged");
                c.check("power:workless-set-zero-power", std::fabs(pw), 2 * l1 * ue + E1 * psc * 10, [&] { Json j = wit; j.set("what", "constraint power not zero for a workless set with uerr = 0").set("power", pw).set("uerr", ue).set("lambda1", l1).set("scale", psc); return j; });
            }
        }
    }
    // ---------------------------------------------------------------- reuse of the same State after a u-only / q-only change
    // (results cached at the previous <q,u> must not leak through): the acceleration-level oracles are
    // re-applied on the SAME State object and its results are compared with those of a State whose cache
    // was invalidated from Position up. Non-redundant sets only (consistency by construction does not
    // survive a change of u or q).
    if (!redundant) for (int pass = 0; pass < 2; ++pass) {
        const std::string sfx = pass == 0 ? ":after-u-only-change" : ":after-q-only-change";
        c.setPhase("C08 reuse" + sfx);
        if (pass == 0) s.updU() = randVector(r, nu, 1.0);
        else {
            Vector v = randVector(r, nu), dq; matter.multiplyByN(s, false, v, dq);
            s.updQ() = s.getQ() + 0.15 * dq;
            if (!sc.d.euler) for (size_t b = 0; b < A.m.bodies.size(); ++b) if (mobHasQuat(sc.d.nodes[b].type)) {
                Vector qb = A.m.bodies[b].getQAsVector(s); double nrm = std::sqrt(qb[0] * qb[0] + qb[1] * qb[1] + qb[2] * qb[2] + qb[3] * qb[3]);
                for (int i = 0; i < 4; ++i) qb[i] /= nrm; A.m.bodies[b].setQFromVector(s, qb); }
            sys.realize(s, Stage::Position);
            if (!sphericalOK(A.m, s)) { c.skip("spherical-singularity" + sfx); break; }
        }
        sys.realize(s, Stage::Acceleration);
        if (!allFinite(s.getUDot()) || !allFinite(s.getMultipliers())) { c.viol("finite:acceleration-results" + sfx, wit); break; }
        Matrix M2, MI2, G2; matter.calcM(s, M2); double cM2 = condEstimateM(M2);
        if (!(cM2 <= 1e7)) { c.skip("ill-conditioned-M" + sfx); break; }
        matter.calcMInv(s, MI2); matter.calcG(s, G2);
        Matrix W2 = G2 * MI2 * ~G2; for (int i = 0; i < m; ++i) for (int j = 0; j < i; ++j) { double a = 0.5 * (W2(i, j) + W2(j, i)); W2(i, j) = W2(j, i) = a; }
        std::vector<double> ev2; Matrix EV2; jacobiEig(W2, ev2, EV2);
        double lmx = 0, lmn = 1e300; for (double x : ev2) { lmx = std::max(lmx, x); lmn = std::min(lmn, x); }
        if (!(lmx > 0) || !(lmn > 1e-7 * lmx)) { c.skip("rank-deficient-or-ill-conditioned" + sfx); break; }
        const double cE2 = lmx / lmn;
        const Vector& f2 = sys.getMobilityForces(s, Stage::Dynamics); const Vector_<SpatialVec>& F2 = sys.getRigidBodyForces(s, Stage::Dynamics);
        Vector ud0; Vector_<SpatialVec> A02; matter.calcAccelerationIgnoringConstraints(s, f2, F2, ud0, A02);
        Vector ae0; matter.calcConstraintAccelerationErrors(s, ud0, ae0);
        const Vector ud = s.getUDot(), lm = s.getMultipliers(), ue = s.getUDotErr();
        const double scU = std::max(1.0, std::max(vmaxabs(ae0), rowSumMax(G2) * std::max(vmaxabs(ud), vmaxabs(ud0))));
        const double tU = (E1 + 1e-13 * cE2) * scU;
        c.check("udoterr:forward-dynamics" + sfx, vmaxabs(ue), tU, [&] { Json j = wit; j.set("what", "acceleration-level constraint errors not zero on a reused State").set("udoterr", jV(ue)); return j; });
        { Vector ae; matter.calcConstraintAccelerationErrors(s, ud, ae); c.check("udoterr:state-vs-operator" + sfx, vdiff(ae, ue), tU, W("getUDotErr != calcConstraintAccelerationErrors(getUDot) on a reused State")); }
        { Vector res, Gl, Mud, JtF, C0; matter.calcResidualForce(s, f2, F2, ud, lm, res); matter.multiplyByGTranspose(s, lm, Gl); matter.multiplyByM(s, ud, Mud); matter.multiplyBySystemJacobianTranspose(s, F2, JtF);
          matter.calcResidualForceIgnoringConstraints(s, Vector(nu, 0.0), Vector_<SpatialVec>(), Vector(nu, 0.0), C0);
          double scR = vmaxabs(Mud) + vmaxabs(f2) + vmaxabs(JtF) + vmaxabs(Gl) + vmaxabs(C0) + 1;
          c.check("newton:calcResidualForce(udot,lambda)=0" + sfx, vmaxabs(res), (1e-12 * cM2 * nu + E1) * scR, W("Newton residual with the reported multipliers not zero on a reused State")); }
        // the same <t,q,u> on a State whose cache is rebuilt from Position up
        State fr = s; fr.updQ(); fr.updU();
        sys.realize(fr, Stage::Acceleration);
        double tD = (E1 + 1e-13 * cE2 + 1e-13 * cM2);
        c.check("reuse:udot-vs-fresh-state" + sfx, vdiff(fr.getUDot(), ud), tD * (vmaxabs(ud) + 1), W("udot on a reused State != udot on a freshly realized State with the same t,q,u"));
        c.check("reuse:udoterr-vs-fresh-state" + sfx, vdiff(fr.getUDotErr(), ue), tU, W("udoterr on a reused State != freshly realized State"));
        c.check("reuse:multipliers-vs-fresh-state" + sfx, vdiff(fr.getMultipliers(), lm), tD * (vmaxabs(lm) + 1) * 10, W("multipliers on a reused State != freshly realized State"));
        c.check("reuse:qerr-uerr-vs-fresh-state" + sfx, std::max(vdiff(fr.getQErr(), s.getQErr()), vdiff(fr.getUErr(), s.getUErr())), E1 * (vmaxabs(s.getQErr()) + vmaxabs(s.getUErr()) + 1), W("qerr/uerr on a reused State != freshly realized State"));
        c.obs("reuse-pass-judged" + sfx);
    }
    // ---------------------------------------------------------------- coverage
    { int ne = 0; for (auto& x : sc.cons) if (!x.disabled) ++ne; c.obs("enabled-constraints=" + std::to_string(ne)); c.obs("equations-total", m); if (anyDisabled) c.obs("cases-with-disabled-constraints"); }
    std::set<std::string> types; bool h = false, nh = false, ao = false;
    for (auto& x : sc.cons) if (!x.disabled) { types.insert(ctVariant(x.type)); int a, b2, c2; ctEqs(x.type, a, b2, c2); h = h || a; nh = nh || b2; ao = ao || c2; }
    std::string key; for (auto& x : types) { if (!key.empty()) key += "+"; key += x; }
    key += std::string("|") + (sc.redClass == 0 ? (redundant ? "accidental-redundancy" : "none") : sc.redClass == 1 ? "duplicated" : "loop") + "|" + (h ? "h" : "") + (nh ? "n" : "") + (ao ? "a" : "") + (anyDisabled ? "|masked" : "|all-enabled");
    c.cover(key);
    if (c.wantSample()) c.sample(Json::obj().set("model", sc.d.shortStr()).set("scenario", wit).set("m", m).set("rank", rank).set("condEff", condEff).set("udoterr_max", vmaxabs(udoterr)));
}

int main(int argc, char** argv) {
    Args a = parseArgs(argc, argv);
    Ctx c(a);
    const std::string p = a.prop;
    const int forceType = (int)a.getInt("type", -1);
    return runCases(c, [&](long i, Rng& r) {
        if (p == "C07") checkC07(c, i, r, forceType);
        else if (p == "C08") checkC08(c, i, r);
        else { fprintf(stderr, "mon_constraint: unknown property %s\n", p.c_str()); exit(2); }
    });
}
