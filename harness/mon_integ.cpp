// mon_integ.cpp — runtime monitors for
//   C19  Integrators honour the step/report/final-time contract
//        (client-boundary trace + online checker of the state machine documented in
//         SimTKmath/Integrators/src/IntegratorRep.h)
//   C20  Error-controlled integrators deliver the requested accuracy
//        (analytic-solution oracle on custom Systems with weights 1)
//
// Legal-client preconditions (DESIGN §1.5a, §5 C19) — a case is never judged outside them:
//   P1  reportTime >= getTime() at entry; after a ReachedEventTrigger return the next
//       reportTime is >= the window's tHigh (a TimeStepper re-uses its pending report time,
//       which the integrator guaranteed not to lie inside the window).
//   P2  hostile-legal mode: scheduledEventTime >= getAdvancedTime() at entry (the documented
//       promise is "never advance *further* past scheduledEventTime"). stepper-like mode:
//       the scheduled time is the first entry of a fixed sorted list that has not yet been
//       returned (exactly what TimeStepper does); it can fall behind the advanced state
//       only if the integrator itself overshot it earlier.
//   P3  final time, options and accuracy are fixed for the whole sequence (set before
//       initialize()); at least one of <report, scheduled, final, step limit,
//       return-every-step> bounds every call.
//   P4  after ReachedEventTrigger / ReachedScheduledEvent / TimeHasAdvanced /
//       EndOfSimulation the client calls reinitialize(lowestModifiedStage, terminate) as
//       TimeStepper does; state changes are made only then, through updAdvancedState().
//   P5  C20: smooth ODEs, |y| = O(1), state weights 1, horizons of a few periods.
//   P6  CPodes is never given reportTime = infinity (CPODES needs a finite tout; the
//       AbstractIntegratorRep integrators are, since they accept it).
//   P7  stepBy() is used with a scheduled interval only when t + interval reproduces the
//       client's absolute scheduled time bit for bit (else stepTo), so that rounding in the
//       client never puts a scheduled time behind a legally advanced state.
// Judging: all invariants of a call are evaluated, the first failing one (advanced state, then
// returned time, status/time agreement, monotonicity, termination, window, limits) is reported
// and the sequence ends (later alarms are consequences). For CPodes the key is attributed to
// the recognisable root situation when there is one: reinitialize at the final time; event
// localized inside a CPODES step with the state left unchanged (interpolation off); a request
// below CPODES' time resolution. A NaN state under a user-forced fixed step, and a StepFailed
// after genuine step attempts, are counted outcomes.
// Everything the library may legitimately throw (StepFailed, documented refusal after
// EndOfSimulation) is caught and classified; no wall-clock verdicts (an evaluation-count
// cap turns a runaway integration into a counted skip).
#include "model.h"
#include "SimTKcommon/internal/SystemGuts.h"
#include <memory>

using namespace SimTK;
using namespace vh;

static const double Inf = std::numeric_limits<double>::infinity();

//==============================================================================
//                     CUSTOM ODE SYSTEM WITH KNOWN SOLUTION
//==============================================================================
struct Witness {
    int kind = 0;        // 0: t - a ; 1: y[k] - a
    int k = 0; double a = 0;
    int dir = 0;         // 0 both, 1 rising only, -1 falling only
};
struct OdeDef {
    int nq = 0, nz = 0;                      // nu == nq, qdot = u
    std::string cls;
    double rho = 1;                          // spectral radius / Lipschitz constant
    double t0 = 0;
    std::vector<double> q0, u0, z0;
    // rhs(t, q, u, z, udot, zdot)
    std::function<void(double, const double*, const double*, const double*, double*, double*)> rhs;
    // exact solution y(t) = [q,u,z]
    std::function<void(double, std::vector<double>&)> exact;
    std::vector<Witness> wit;
    Json desc = Json::obj();
    // runaway guard (count based)
    mutable long evals = 0; long evalCap = 4000000;
    int ny() const { return 2 * nq + nz; }
};

class OdeGuts : public System::Guts {
public:
    std::shared_ptr<OdeDef> def;
    SubsystemIndex subsys;
    mutable EventTriggerByStageIndex evIx;
    explicit OdeGuts(std::shared_ptr<OdeDef> d) : Guts("vhOde", "1.0.0"), def(d) {}
    OdeGuts* cloneImpl() const override { return new OdeGuts(*this); }

    int realizeTopologyImpl(State& s) const override {
        const OdeDef& d = *def;
        if (d.nq > 0) {
            Vector q(d.nq), u(d.nq);
            for (int i = 0; i < d.nq; ++i) { q[i] = d.q0[i]; u[i] = d.u0[i]; }
            s.allocateQ(subsys, q); s.allocateU(subsys, u);
        }
        if (d.nz > 0) {
            Vector z(d.nz);
            for (int i = 0; i < d.nz; ++i) z[i] = d.z0[i];
            s.allocateZ(subsys, z);
        }
        System::Guts::realizeTopologyImpl(s);
        return 0;
    }
    int realizeModelImpl(State& s) const override { System::Guts::realizeModelImpl(s); return 0; }
    int realizeInstanceImpl(const State& s) const override {
        if (!def->wit.empty()) evIx = s.allocateEventTrigger(subsys, Stage::Acceleration, (int)def->wit.size());
        System::Guts::realizeInstanceImpl(s);
        return 0;
    }
    int realizeVelocityImpl(const State& s) const override {
        if (def->nq > 0) s.updQDot(subsys) = s.getU(subsys);
        System::Guts::realizeVelocityImpl(s);
        return 0;
    }
    int realizeAccelerationImpl(const State& s) const override {
        const OdeDef& d = *def;
        if (++d.evals > d.evalCap) throw std::runtime_error("vh-eval-cap exceeded");
        double q[8], u[8], z[8], ud[8], zd[8];
        if (d.nq > 0) { const Vector& Q = s.getQ(subsys); const Vector& U = s.getU(subsys); for (int i = 0; i < d.nq; ++i) { q[i] = Q[i]; u[i] = U[i]; } }
        if (d.nz > 0) { const Vector& Z = s.getZ(subsys); for (int i = 0; i < d.nz; ++i) z[i] = Z[i]; }
        d.rhs(s.getTime(), q, u, z, ud, zd);
        if (d.nq > 0) {
            Vector& UD = s.updUDot(subsys); Vector& QDD = s.updQDotDot(subsys);
            for (int i = 0; i < d.nq; ++i) { UD[i] = ud[i]; QDD[i] = ud[i]; }
        }
        if (d.nz > 0) { Vector& ZD = s.updZDot(subsys); for (int i = 0; i < d.nz; ++i) ZD[i] = zd[i]; }
        if (!d.wit.empty()) {
            Vector& e = s.updEventTriggersByStage(subsys, Stage::Acceleration);
            for (size_t i = 0; i < d.wit.size(); ++i) {
                const Witness& w = d.wit[i];
                double v;
                if (w.kind == 0) v = s.getTime() - w.a;
                else { int k = w.k; v = (k < d.nq ? q[k] : k < 2 * d.nq ? u[k - d.nq] : z[k - 2 * d.nq]) - w.a; }
                e[(int)evIx + (int)i] = v;
            }
        }
        System::Guts::realizeAccelerationImpl(s);
        return 0;
    }
    void multiplyByNImpl(const State&, const Vector& u, Vector& dq) const override { dq = u; }
    void multiplyByNTransposeImpl(const State&, const Vector& fq, Vector& fu) const override { fu = fq; }
    void multiplyByNPInvImpl(const State&, const Vector& dq, Vector& u) const override { u = dq; }
    void multiplyByNPInvTransposeImpl(const State&, const Vector& fu, Vector& fq) const override { fq = fu; }

    int calcEventTriggerInfoImpl(const State&, Array_<EventTriggerInfo>& info) const override {
        info.clear();
        for (size_t i = 0; i < def->wit.size(); ++i) {
            EventTriggerInfo e{EventId((int)i)};
            e.setTriggerOnRisingSignTransition(def->wit[i].dir >= 0);
            e.setTriggerOnFallingSignTransition(def->wit[i].dir <= 0);
            info.push_back(e);
        }
        return 0;
    }
};

class OdeSystem : public System {
public:
    explicit OdeSystem(std::shared_ptr<OdeDef> d) {
        adoptSystemGuts(new OdeGuts(d));
        DefaultSystemSubsystem defsub(*this);
        dynamic_cast<OdeGuts&>(updSystemGuts()).subsys = defsub.getMySubsystemIndex();
        setHasTimeAdvancedEvents(false);
    }
};

//------------------------------------------------------------------------------ Jacobi elliptic functions (AGM, A&S 16.4)
static void jacobiSnCnDn(double u, double m, double& sn, double& cn, double& dn) {
    double a[32], c[32]; a[0] = 1; double b = std::sqrt(1 - m); c[0] = std::sqrt(m);
    int n = 0;
    while (std::fabs(c[n]) > 1e-17 && n < 30) { double an = (a[n] + b) / 2; c[n + 1] = (a[n] - b) / 2; b = std::sqrt(a[n] * b); a[n + 1] = an; ++n; }
    double phi = std::ldexp(a[n] * u, n);
    for (int k = n; k >= 1; --k) phi = (phi + std::asin(c[k] / a[k] * std::sin(phi))) / 2;
    sn = std::sin(phi); cn = std::cos(phi); dn = std::sqrt(1 - m * sn * sn);
}

//------------------------------------------------------------------------------ system generators
// y' = A y in z, A = Q L Q^T normal with prescribed spectrum (blocks (a,b): a +- ib, b==0 real)
static std::shared_ptr<OdeDef> makeLinZ(Rng& r, const std::string& flavour, double t0) {
    auto d = std::make_shared<OdeDef>();
    std::vector<std::pair<double, double>> blk;
    if (flavour == "lin-osc") {            // undamped rotations
        int nb = r.integer(1, 3); for (int i = 0; i < nb; ++i) blk.push_back({0.0, r.uni(1.0, 4.0)});
    } else if (flavour == "lin-dosc") {    // lightly damped rotations + maybe one real mode
        int nb = r.integer(1, 2); for (int i = 0; i < nb; ++i) blk.push_back({-r.uni(0.02, 0.3), r.uni(1.0, 4.0)});
        if (r.coin()) blk.push_back({-r.uni(0.2, 2.0), 0.0});
    } else if (flavour == "lin-decay") {
        int nb = r.integer(1, 5); for (int i = 0; i < nb; ++i) blk.push_back({-r.uni(0.2, 3.0), 0.0});
    } else {                               // lin-stiff: ratio up to 1e3
        int nb = r.integer(2, 4); double fast = r.logUni(20, 300);
        blk.push_back({-fast, 0.0}); blk.push_back({-r.uni(0.3, 1.0), 0.0});
        for (int i = 2; i < nb; ++i) blk.push_back({-r.logUni(0.3, fast), 0.0});
    }
    int n = 0; for (auto& b : blk) n += (b.second != 0 ? 2 : 1);
    // random orthogonal Q by Gram-Schmidt
    std::vector<double> Q(n * n);
    for (int j = 0; j < n; ++j) {
        for (;;) {
            for (int i = 0; i < n; ++i) Q[i * n + j] = r.normal();
            for (int k = 0; k < j; ++k) { double dot = 0; for (int i = 0; i < n; ++i) dot += Q[i * n + j] * Q[i * n + k]; for (int i = 0; i < n; ++i) Q[i * n + j] -= dot * Q[i * n + k]; }
            double nn = 0; for (int i = 0; i < n; ++i) nn += Q[i * n + j] * Q[i * n + j];
            nn = std::sqrt(nn); if (nn < 0.1) continue;
            for (int i = 0; i < n; ++i) Q[i * n + j] /= nn;
            break;
        }
    }
    std::vector<double> L(n * n, 0.0);
    { int p = 0; for (auto& b : blk) { if (b.second != 0) { L[p * n + p] = b.first; L[(p + 1) * n + p + 1] = b.first; L[p * n + p + 1] = -b.second; L[(p + 1) * n + p] = b.second; p += 2; } else { L[p * n + p] = b.first; ++p; } } }
    std::vector<double> A(n * n, 0.0), QL(n * n, 0.0);
    for (int i = 0; i < n; ++i) for (int j = 0; j < n; ++j) { double s = 0; for (int k = 0; k < n; ++k) s += Q[i * n + k] * L[k * n + j]; QL[i * n + j] = s; }
    for (int i = 0; i < n; ++i) for (int j = 0; j < n; ++j) { double s = 0; for (int k = 0; k < n; ++k) s += QL[i * n + k] * Q[j * n + k]; A[i * n + j] = s; }
    std::vector<double> y0(n); double nn = 0; for (auto& v : y0) { v = r.sym(1.0); nn += v * v; } nn = std::sqrt(nn); if (nn < 0.2) { y0[0] += 1; nn = 1; } for (auto& v : y0) v /= nn;
    std::vector<double> w0(n, 0.0); for (int j = 0; j < n; ++j) for (int i = 0; i < n; ++i) w0[j] += Q[i * n + j] * y0[i];
    d->nz = n; d->z0 = y0; d->t0 = t0; d->cls = flavour;
    d->rho = 0; for (auto& b : blk) d->rho = std::max(d->rho, std::hypot(b.first, b.second));
    d->rhs = [A, n](double, const double*, const double*, const double* z, double*, double* zd) {
        for (int i = 0; i < n; ++i) { double s = 0; for (int j = 0; j < n; ++j) s += A[i * n + j] * z[j]; zd[i] = s; }
    };
    d->exact = [Q, blk, w0, n, t0](double t, std::vector<double>& y) {
        double tt = t - t0; std::vector<double> w(n); int p = 0;
        for (auto& b : blk) {
            if (b.second != 0) { double e = std::exp(b.first * tt), cs = std::cos(b.second * tt), sn = std::sin(b.second * tt);
                w[p] = e * (cs * w0[p] - sn * w0[p + 1]); w[p + 1] = e * (sn * w0[p] + cs * w0[p + 1]); p += 2; }
            else { w[p] = std::exp(b.first * tt) * w0[p]; ++p; }
        }
        y.assign(n, 0.0); for (int i = 0; i < n; ++i) for (int j = 0; j < n; ++j) y[i] += Q[i * n + j] * w[j];
    };
    Json jb = Json::arr(); for (auto& b : blk) jb.push(Json::arr().push(b.first).push(b.second));
    d->desc.set("cls", flavour).set("n", n).set("spectrum", jb);
    return d;
}

// modal oscillators in (q,u): q'' = -K q - C q', K = Q w^2 Q^T, C = Q 2 zeta w Q^T
static std::shared_ptr<OdeDef> makeOsc(Rng& r, bool damped, double t0) {
    auto d = std::make_shared<OdeDef>();
    int n = r.integer(1, 3);
    std::vector<double> om(n), ze(n);
    for (int i = 0; i < n; ++i) { om[i] = r.uni(1.0, 4.0); ze[i] = damped ? r.uni(0.02, 0.3) : 0.0; }
    std::vector<double> Q(n * n);
    for (int j = 0; j < n; ++j) for (;;) {
        for (int i = 0; i < n; ++i) Q[i * n + j] = r.normal();
        for (int k = 0; k < j; ++k) { double dot = 0; for (int i = 0; i < n; ++i) dot += Q[i * n + j] * Q[i * n + k]; for (int i = 0; i < n; ++i) Q[i * n + j] -= dot * Q[i * n + k]; }
        double nn = 0; for (int i = 0; i < n; ++i) nn += Q[i * n + j] * Q[i * n + j]; nn = std::sqrt(nn); if (nn < 0.1) continue;
        for (int i = 0; i < n; ++i) Q[i * n + j] /= nn; break;
    }
    std::vector<double> K(n * n, 0.0), C(n * n, 0.0);
    for (int i = 0; i < n; ++i) for (int j = 0; j < n; ++j) for (int k = 0; k < n; ++k) { K[i * n + j] += Q[i * n + k] * om[k] * om[k] * Q[j * n + k]; C[i * n + j] += Q[i * n + k] * 2 * ze[k] * om[k] * Q[j * n + k]; }
    std::vector<double> e0(n), ed0(n);   // modal initial conditions
    for (int k = 0; k < n; ++k) { double ph = r.uni(0, 6.28318), amp = r.uni(0.3, 1.0) / std::sqrt((double)n); e0[k] = amp * std::cos(ph); ed0[k] = -amp * om[k] * std::sin(ph); }
    d->nq = n; d->q0.assign(n, 0.0); d->u0.assign(n, 0.0);
    for (int i = 0; i < n; ++i) for (int k = 0; k < n; ++k) { d->q0[i] += Q[i * n + k] * e0[k]; d->u0[i] += Q[i * n + k] * ed0[k]; }
    d->t0 = t0; d->cls = damped ? "osc-damped" : "osc"; d->rho = *std::max_element(om.begin(), om.end());
    d->rhs = [K, C, n](double, const double* q, const double* u, const double*, double* ud, double*) {
        for (int i = 0; i < n; ++i) { double s = 0; for (int j = 0; j < n; ++j) s -= K[i * n + j] * q[j] + C[i * n + j] * u[j]; ud[i] = s; }
    };
    d->exact = [Q, om, ze, e0, ed0, n, t0](double t, std::vector<double>& y) {
        double tt = t - t0; std::vector<double> e(n), ed(n);
        for (int k = 0; k < n; ++k) {
            double w = om[k], z = ze[k], wd = w * std::sqrt(1 - z * z), a = e0[k], b = (ed0[k] + z * w * a) / wd;
            double ex = std::exp(-z * w * tt), cs = std::cos(wd * tt), sn = std::sin(wd * tt);
            e[k] = ex * (a * cs + b * sn);
            ed[k] = ex * (-z * w * (a * cs + b * sn) + wd * (-a * sn + b * cs));
        }
        y.assign(2 * n, 0.0);
        for (int i = 0; i < n; ++i) for (int k = 0; k < n; ++k) { y[i] += Q[i * n + k] * e[k]; y[n + i] += Q[i * n + k] * ed[k]; }
    };
    d->desc.set("cls", d->cls).set("n", n).set("omega", jvec(om)).set("zeta", jvec(ze));
    return d;
}

// mathematical pendulum q'' = -w0^2 sin q, exact by Jacobi elliptic functions
static std::shared_ptr<OdeDef> makePendulum(Rng& r, double t0) {
    auto d = std::make_shared<OdeDef>();
    double w0 = r.uni(1.0, 3.0), th0 = r.uni(0.3, 2.6), k = std::sin(th0 / 2), m = k * k, kp = std::sqrt(1 - m);
    double tau = r.uni(0, 3.0);    // phase offset
    auto sol = [w0, k, m, kp, tau, t0](double t, double& q, double& u) {
        double sn, cn, dn; jacobiSnCnDn(w0 * (t - t0 + tau), m, sn, cn, dn);
        q = 2 * std::asin(k * cn / dn); u = -2 * k * kp * w0 * sn / dn;
    };
    double q0, u0; sol(t0, q0, u0);
    d->nq = 1; d->q0 = {q0}; d->u0 = {u0}; d->t0 = t0; d->cls = "pendulum"; d->rho = w0;
    d->rhs = [w0](double, const double* q, const double*, const double*, double* ud, double*) { ud[0] = -w0 * w0 * std::sin(q[0]); };
    d->exact = [sol](double t, std::vector<double>& y) { y.resize(2); sol(t, y[0], y[1]); };
    d->desc.set("cls", "pendulum").set("w0", w0).set("amplitude", th0).set("phase", tau);
    return d;
}

// Prothero-Robinson (non-autonomous): z_i' = l_i (z_i - g_i(t)) + g_i'(t), g_i = A sin(w t + p)
static std::shared_ptr<OdeDef> makePR(Rng& r, double t0) {
    auto d = std::make_shared<OdeDef>();
    int n = r.integer(1, 3);
    std::vector<double> l(n), A(n), w(n), p(n), c(n);
    d->z0.resize(n); d->rho = 0;
    for (int i = 0; i < n; ++i) { l[i] = -r.uni(0.3, 4.0); A[i] = r.uni(0.3, 1.0); w[i] = r.uni(1.0, 4.0); p[i] = r.uni(0, 6.28318); c[i] = r.sym(0.5);
        d->z0[i] = A[i] * std::sin(w[i] * t0 + p[i]) + c[i]; d->rho = std::max(d->rho, std::max(-l[i], w[i])); }
    d->nz = n; d->t0 = t0; d->cls = "pr";
    d->rhs = [l, A, w, p, n](double t, const double*, const double*, const double* z, double*, double* zd) {
        for (int i = 0; i < n; ++i) zd[i] = l[i] * (z[i] - A[i] * std::sin(w[i] * t + p[i])) + A[i] * w[i] * std::cos(w[i] * t + p[i]);
    };
    d->exact = [l, A, w, p, c, n, t0](double t, std::vector<double>& y) { y.resize(n); for (int i = 0; i < n; ++i) y[i] = A[i] * std::sin(w[i] * t + p[i]) + c[i] * std::exp(l[i] * (t - t0)); };
    d->desc.set("cls", "pr").set("n", n).set("lambda", jvec(l)).set("omega", jvec(w));
    return d;
}

// A (q,u) oscillator and an independent z system in one State (nq, nu and nz all > 0), one of them slow
// and small, the other fast and O(1): the fast part alone should limit the step, so an error norm
// that looks at the wrong slice of the error estimate (or ignores the z or u block) loses accuracy.
static std::shared_ptr<OdeDef> makeMixed(Rng& r, bool zFast, double t0) {
    std::shared_ptr<OdeDef> a = makeOsc(r, false, t0), b = makeLinZ(r, "lin-osc", t0);
    // time-scale the slow part by sigma and shrink it by amp: y_slow(t) = amp * y(t0 + sigma (t - t0))
    const double sigma = r.uni(0.05, 0.15), amp = r.uni(0.02, 0.1);
    auto d = std::make_shared<OdeDef>();
    const int nq = a->nq, nz = b->nz;
    d->nq = nq; d->nz = nz; d->t0 = t0; d->cls = zFast ? "mix-zfast" : "mix-ufast";
    std::vector<double> ya, yb; a->exact(t0, ya); b->exact(t0, yb);
    const double sa = zFast ? sigma : 1.0, ka = zFast ? amp : 1.0, sb = zFast ? 1.0 : sigma, kb = zFast ? 1.0 : amp;
    d->q0.resize(nq); d->u0.resize(nq); d->z0.resize(nz);
    for (int i = 0; i < nq; ++i) { d->q0[i] = ka * ya[i]; d->u0[i] = ka * sa * ya[nq + i]; }
    for (int i = 0; i < nz; ++i) d->z0[i] = kb * yb[i];
    d->rho = std::max(sa * a->rho, sb * b->rho);
    auto ra = a->rhs, rb = b->rhs;
    d->rhs = [ra, rb, nq, nz, sa, sb](double t, const double* q, const double* u, const double* z, double* ud, double* zd) {
        // both subsystems are linear and autonomous: scaling time by s scales q'' by s^2 (u carries one factor s), z' by s
        double uu[8], tmp[8];
        for (int i = 0; i < nq; ++i) uu[i] = u[i] / sa;
        ra(t, q, uu, nullptr, ud, nullptr); for (int i = 0; i < nq; ++i) ud[i] *= sa * sa;
        rb(t, nullptr, nullptr, z, tmp, zd); for (int i = 0; i < nz; ++i) zd[i] *= sb;
    };
    auto ea = a->exact, eb = b->exact;
    d->exact = [ea, eb, nq, nz, sa, sb, ka, kb, t0](double t, std::vector<double>& y) {
        std::vector<double> ya, yb; ea(t0 + sa * (t - t0), ya); eb(t0 + sb * (t - t0), yb);
        y.assign(2 * nq + nz, 0.0);
        for (int i = 0; i < nq; ++i) { y[i] = ka * ya[i]; y[nq + i] = ka * sa * ya[nq + i]; }
        for (int i = 0; i < nz; ++i) y[2 * nq + i] = kb * yb[i];
    };
    d->desc.set("cls", d->cls).set("qu", a->desc).set("z", b->desc).set("sigma", sigma).set("amp", amp);
    return d;
}

static const char* kC20Classes[] = {"osc", "lin-osc", "pendulum", "lin-dosc", "osc-damped", "lin-decay", "pr", "lin-stiff", "mix-zfast", "mix-ufast"};
static const int kNC20Classes = 10;
static std::shared_ptr<OdeDef> makeByClass(const std::string& cls, Rng& r, double t0) {
    if (cls == "mix-zfast") return makeMixed(r, true, t0);
    if (cls == "mix-ufast") return makeMixed(r, false, t0);
    if (cls == "osc") return makeOsc(r, false, t0);
    if (cls == "osc-damped") return makeOsc(r, true, t0);
    if (cls == "pendulum") return makePendulum(r, t0);
    if (cls == "pr") return makePR(r, t0);
    return makeLinZ(r, cls, t0);
}

//==============================================================================
//                              INTEGRATOR FACTORY
//==============================================================================
enum IntegKind { IK_ExplicitEuler, IK_RK2, IK_RK3, IK_RKF, IK_RKM, IK_Verlet, IK_SEE, IK_SEE2, IK_CPodesBDF, IK_CPodesAdams, IK_Count };
static const char* integName(int k) {
    static const char* n[] = {"ExplicitEuler", "RungeKutta2", "RungeKutta3", "RungeKuttaFeldberg", "RungeKuttaMerson", "Verlet",
                              "SemiExplicitEuler", "SemiExplicitEuler2", "CPodesBDF", "CPodesAdams"};
    return n[k];
}
// name used in violation keys: both CPodes methods share one stepTo implementation
static std::string keyName(int k) { return (k == IK_CPodesBDF || k == IK_CPodesAdams) ? "CPodes" : integName(k); }
static std::shared_ptr<Integrator> makeInteg(int kind, const System& sys, double seeStep) {
    switch (kind) {
    case IK_ExplicitEuler: return std::shared_ptr<Integrator>(new ExplicitEulerIntegrator(sys));
    case IK_RK2: return std::shared_ptr<Integrator>(new RungeKutta2Integrator(sys));
    case IK_RK3: return std::shared_ptr<Integrator>(new RungeKutta3Integrator(sys));
    case IK_RKF: return std::shared_ptr<Integrator>(new RungeKuttaFeldbergIntegrator(sys));
    case IK_RKM: return std::shared_ptr<Integrator>(new RungeKuttaMersonIntegrator(sys));
    case IK_Verlet: return std::shared_ptr<Integrator>(new VerletIntegrator(sys));
    case IK_SEE: return std::shared_ptr<Integrator>(new SemiExplicitEulerIntegrator(sys, seeStep));
    case IK_SEE2: return std::shared_ptr<Integrator>(new SemiExplicitEuler2Integrator(sys));
    case IK_CPodesBDF: return std::shared_ptr<Integrator>(new CPodesIntegrator(sys, CPodes::BDF));
    case IK_CPodesAdams: return std::shared_ptr<Integrator>(new CPodesIntegrator(sys, CPodes::Adams));
    }
    throw std::logic_error("bad integrator kind");
}
static std::string statusName(Integrator::SuccessfulStepStatus s) { return std::string(Integrator::getSuccessfulStepStatusString(s).c_str()); }

static std::string classifyException(const std::string& what) {
    if (what.find("vh-eval-cap") != std::string::npos) return "eval-cap";
    if (what.find("EndOfSimulation already returned") != std::string::npos || what.find("had already been") != std::string::npos) return "already-ended";
    if (what.find("Unable to advance time") != std::string::npos) return "unable-to-advance-time";
    if (what.find("CPodes::step() returned an error") != std::string::npos) return "cpodes-step-error";
    if (what.find("minimum allowed size") != std::string::npos) return "step-size-too-small";
    if (what.find("initialization failed") != std::string::npos) return "initialization-failed";
    std::string n = normMsg(what);
    size_t p = n.find("apparently because:");
    if (p != std::string::npos) n = n.substr(p + 19);
    return "other:" + n.substr(0, 80);
}

//==============================================================================
//                                   C19
//==============================================================================
struct SeqOpts {
    int allowInterp = -1;     // -1 unset, 0 false, 1 true
    bool hasFinal = false; double tFinal = Inf;
    int stepLimit = 0; bool everyStep = false;
    double fixedStep = 0, maxStep = 0, acc = 0; bool infNorm = false;
    bool stepperMode = true;
    Json toJson() const {
        return Json::obj().set("allowInterp", allowInterp).set("tFinal", hasFinal ? Json(tFinal) : Json("none")).set("stepLimit", stepLimit)
            .set("everyStep", everyStep).set("fixedStep", fixedStep).set("maxStep", maxStep).set("acc", acc).set("infNorm", infNorm)
            .set("mode", stepperMode ? "stepper" : "hostile");
    }
};

// CPodes, interpolation disallowed: an event was localized inside a CPODES step and the handler left the state
// unchanged, so CPODES' internal time stays ahead of the advanced state; later requests in between are refused
// ("tstop is behind current t") or answered by interpolation.
static const char* kCpEventKey = "I3:CPodes:CPODES-step-extends-past-localized-event,state-unchanged-by-handler(interp off)";
static double tinyAbove(double t, Rng& r) {
    double x = t + std::max(std::fabs(t), 1.0) * r.logUni(1e-15, 1e-12);
    if (!(x > t)) x = std::nextafter(t, Inf);
    return x;
}

static void checkC19(Ctx& c, long i, Rng& r) {
    long cell = i + (long)(c.args.seed % 9973);
    const int kind = (int)(cell % IK_Count);
    const int sysCls = (int)((cell / IK_Count) % 5);     // 0 lin, 1 osc, 2 pr, 3 pendulum, 4 multibody
    const std::string name = integName(kind), kn = keyName(kind);
    c.setPhase("C19 build " + name);

    // ------------------------------------------------------------- system
    const double t0 = r.coin(0.7) ? 0.0 : r.uni(0.0, 5.0);
    std::shared_ptr<OdeDef> def; std::unique_ptr<OdeSystem> osys; std::unique_ptr<Model> mbs;
    const System* sys = nullptr; State init;
    std::string sysName;
    const double horizon = 2.0;
    std::vector<double> pool;    // pool of "interesting" times shared by report / scheduled / final / witness choices
    for (int k = 0; k < 6; ++k) pool.push_back(t0 + r.uni(0.02, horizon));
    std::sort(pool.begin(), pool.end());
    if (sysCls < 4) {
        if (sysCls == 0) def = makeLinZ(r, r.coin() ? "lin-dosc" : "lin-decay", t0);
        else if (sysCls == 1) def = makeOsc(r, r.coin(), t0);
        else if (sysCls == 2) def = makePR(r, t0);
        else def = makePendulum(r, t0);
        if (r.coin(0.45)) {
            int nw = r.integer(1, 2);
            for (int k = 0; k < nw; ++k) {
                Witness w; w.dir = r.integer(-1, 1);
                if (r.coin(0.5)) { w.kind = 0; w.a = r.coin(0.5) ? r.pick(pool) : t0 + r.uni(0.01, horizon); }
                else { w.kind = 1; w.k = r.integer(0, def->ny() - 1); w.a = r.sym(0.5); }
                def->wit.push_back(w);
            }
        }
        def->evalCap = 400000;
        osys.reset(new OdeSystem(def)); sys = osys.get();
        init = osys->realizeTopology(); osys->realizeModel(init); init.setTime(t0);
        sysName = def->cls + (def->wit.empty() ? "" : "+wit");
    } else {
        GenOpts o; o.minBodies = 1; o.maxBodies = 3; o.types = {MT_Pin, MT_Slider, MT_Ball, MT_Planar}; o.forceCycle = false; o.pLoneParticle = 0; o.allowWeld = false;
        mbs.reset(new Model); mbs->build(randomDesc(r, o, i));
        Force::UniformGravity(mbs->forces, mbs->matter, Vec3(0, -9.8, 0));
        init = mbs->init(); randomQU(*mbs, init, r, false, 1.0); init.setTime(t0);
        sys = &mbs->sys; sysName = "multibody";
    }

    // ------------------------------------------------------------- options
    SeqOpts o;
    o.stepperMode = r.coin(0.5);
    { double u = r.uni(); o.allowInterp = u < 0.4 ? -1 : u < 0.65 ? 1 : 0; }
    if (r.coin(0.6)) { o.hasFinal = true; o.tFinal = r.coin(0.4) ? r.pick(pool) : t0 + r.uni(0.05, horizon); if (r.coin(0.04)) o.tFinal = tinyAbove(t0, r); }
    { double u = r.uni(); o.stepLimit = u < 0.6 ? 0 : u < 0.8 ? 1 : r.integer(2, 6); }
    o.everyStep = r.coin(0.25);
    const bool isCPodes = (kind == IK_CPodesBDF || kind == IK_CPodesAdams);
    if (!isCPodes) { double u = r.uni(); if (u < 0.25) o.fixedStep = r.logUni(2e-3, 0.1); else if (u < 0.4) o.maxStep = r.logUni(5e-3, 0.2); }
    else if (r.coin(0.2)) o.maxStep = r.logUni(5e-3, 0.2);
    { double u = r.uni(); o.acc = u < 0.4 ? 0 : u < 0.6 ? 1e-2 : u < 0.85 ? 1e-4 : 1e-5; }
    o.infNorm = r.coin(0.2);
    const double seeStep = r.logUni(2e-3, 0.05);

    std::shared_ptr<Integrator> integ;
    try {
        integ = makeInteg(kind, *sys, seeStep);
        if (o.allowInterp >= 0) integ->setAllowInterpolation(o.allowInterp == 1);
        if (o.hasFinal) integ->setFinalTime(o.tFinal);
        if (o.stepLimit > 0) integ->setInternalStepLimit(o.stepLimit);
        if (o.everyStep) integ->setReturnEveryInternalStep(true);
        if (o.fixedStep > 0) integ->setFixedStepSize(o.fixedStep);
        else if (o.maxStep > 0) integ->setMaximumStepSize(o.maxStep);
        if (o.acc > 0) integ->setAccuracy(o.acc);
        if (o.infNorm) integ->setUseInfinityNorm(true);
        c.setPhase("C19 initialize " + name + " " + sysName);
        integ->initialize(init);
    } catch (const std::exception& e) {
        c.obs("initialize-threw:" + classifyException(e.what()));
        c.skip("initialize-threw");
        return;
    }
    const bool interpOn = (o.allowInterp != 0);
    const std::string ion = interpOn ? "(interp on)" : "(interp off)";

    // stepper-like mode: fixed sorted list of scheduled times
    std::vector<double> sched;
    if (o.stepperMode) {
        int ns = r.integer(0, 5);
        for (int k = 0; k < ns; ++k) { double u = r.uni(); sched.push_back(u < 0.35 ? r.pick(pool) : (u < 0.45 && o.hasFinal) ? o.tFinal : (u < 0.55 && o.hasFinal) ? o.tFinal + r.uni(0.01, 0.5) : t0 + r.uni(0.01, horizon * 1.2)); }
        std::sort(sched.begin(), sched.end());
    }
    size_t schedNext = 0;

    // ------------------------------------------------------------- trace
    Json trace = Json::arr();
    auto wit = [&](const std::string& what) {
        return Json::obj().set("integrator", name).set("system", sysName).set("t0", t0).set("opts", o.toJson()).set("what", what).set("trace_tail", trace);
    };
    std::string prev = "init";
    double tPrevRet = -Inf;
    bool over = false, overByHandler = false, expectStart = true, revived = false;
    int endCount = 0; bool retAtFinal = false, mustEndNext = false;
    double lastEventHigh = -Inf; bool startAtFinal = false; (void)lastEventHigh;
    bool cpTiny = false, cpEventPending = false;   // CPodes root-cause attribution (see below)
    const int maxCalls = r.integer(18, 34);
    int probesAfterEnd = 0;

    for (int call = 0; call < maxCalls; ++call) {
        const double tCur = integ->getTime(), tAdv = integ->getAdvancedTime();
        if (!(std::isfinite(tCur) && std::isfinite(tAdv))) { c.viol("nan:" + kn + ":time-not-finite", wit("getTime/getAdvancedTime not finite")); return; }
        const double lowR = (prev == "ReachedEventTrigger") ? std::max(tCur, tAdv) : tCur;   // P1

        // ---- choose scheduled time (P2)
        double tS = Inf;
        if (o.stepperMode) { if (schedNext < sched.size()) tS = sched[schedNext]; if (tS < tCur) tS = tCur; }
        else {
            double u = r.uni();
            if (u < 0.30) tS = Inf; else if (u < 0.40) tS = tAdv; else if (u < 0.50) tS = tinyAbove(tAdv, r);
            else if (u < 0.60 && o.hasFinal && o.tFinal >= tAdv) tS = o.tFinal;
            else if (u < 0.70) { double p = r.pick(pool); tS = p >= tAdv ? p : tAdv + r.uni(0.01, 0.8); }
            else tS = tAdv + r.logUni(0.003, 0.8);
        }
        // ---- choose report time (P1)
        double tR;
        {
            double u = r.uni();
            if (u < 0.12) tR = lowR;
            else if (u < 0.20) tR = tinyAbove(lowR, r);
            else if (u < 0.42) tR = lowR + r.logUni(5e-4, 0.05);
            else if (u < 0.62) tR = lowR + r.uni(0.05, 0.6);
            else if (u < 0.72) tR = (std::isfinite(tS) && tS >= lowR) ? tS : lowR + r.uni(0.01, 0.3);
            else if (u < 0.80) tR = (o.hasFinal && o.tFinal >= lowR) ? o.tFinal : lowR + r.uni(0.01, 0.3);
            else if (u < 0.87) tR = (o.hasFinal && o.tFinal >= lowR) ? o.tFinal + r.uni(0.0, 1.0) : lowR + r.uni(0.3, 1.0);
            else if (u < 0.94) { double p = r.pick(pool); tR = p >= lowR ? p : lowR + r.uni(0.01, 0.3); }
            else tR = isCPodes ? lowR + r.uni(1.0, 3.0) : Inf;    // P6: CPODES is never given tout = infinity
            // P3: something must bound the call
            bool bounded = std::isfinite(tR) || std::isfinite(tS) || o.hasFinal || o.everyStep || o.stepLimit > 0;
            if (!bounded) tR = lowR + r.uni(0.05, 0.6);
            if (std::isfinite(tR) && tR > t0 + 3 * horizon) tR = std::max(lowR, t0 + 3 * horizon);
        }
        // hostile mode also tries tS == tR when legal
        if (!o.stepperMode && r.coin(0.08) && std::isfinite(tR) && tR >= tAdv) tS = tR;

        // ---- stepTo or stepBy; the effective absolute values are those the library computes
        bool useBy = r.coin(0.3) && std::isfinite(tR);
        double effR = tR, effS = tS, ivR = 0, ivS = Inf;
        if (useBy) {
            ivR = tR - tCur; while (tCur + ivR < lowR) ivR = std::nextafter(ivR, Inf);
            effR = tCur + ivR;
            if (std::isfinite(tS)) {
                ivS = tS - tCur; const double lowS = o.stepperMode ? tCur : tAdv;
                while (tCur + ivS < lowS) ivS = std::nextafter(ivS, Inf);
                effS = tCur + ivS;
                // stepper-like client: the scheduled time is a fixed list entry; if t + (tS - t) does not
                // reproduce it bit for bit, a later stepTo(tS) would lie behind a legally advanced state (P2)
                if (o.stepperMode && effS != tS) { useBy = false; effR = tR; effS = tS; }
            }
        }
        {   // a request that moves time by less than CPODES can resolve (it answers "too close": the wrapper then
            // just sets the time, CPodesIntegrator.cpp:418-428)
            const double res = 1e-9 * std::max(1.0, std::fabs(tCur));
            if ((effR > tCur && effR - tCur < res) || (effS > tCur && effS - tCur < res)) cpTiny = true;
        }
        const int steps0 = integ->getNumStepsTaken();
        int att0 = 0; try { att0 = integ->getNumStepsAttempted(); } catch (...) {}
        Json rec = Json::obj();
        rec.set("call", call).set("by", useBy).set("tCur", tCur).set("tAdv", tAdv).set("tReport", effR).set("tSched", effS);
        c.setPhase("C19 step " + name + " " + sysName + " prev=" + prev);

        Integrator::SuccessfulStepStatus st = Integrator::InvalidSuccessfulStepStatus;
        bool threw = false; std::string what;
        try { st = useBy ? integ->stepBy(ivR, ivS) : integ->stepTo(effR, effS); }
        catch (const std::exception& e) { threw = true; what = e.what(); }

        if (over) {
            // I5: stepping must be refused once the simulation is over
            std::string sit = overByHandler ? "step-accepted-after-handler-termination" : "step-accepted-after-end";
            // shared code path: key by the implementing class, not by the concrete method
            std::string who = kn;
            if (revived) { sit = "step-accepted-after-end(reinitialize(stage<Report) after EndOfSimulation)"; if (!isCPodes) who = "AbstractIntegratorRep"; }
            rec.set("threw", threw); trace.push(rec);
            c.require("I5:" + who + ":" + sit, threw, [&] { return wit("stepTo/stepBy did not throw after the simulation was over; returned " + statusName(st)); });
            c.obs(threw ? "refused-after-end" : "accepted-after-end");
            if (!threw && st == Integrator::EndOfSimulation)
                c.viol("I5:" + who + ":end-returned-twice" + (revived ? "(reinitialize(stage<Report) after EndOfSimulation)" : ""), wit("EndOfSimulation returned a second time"));
            if (++probesAfterEnd >= 2 || !threw) break;
            continue;
        }
        if (threw) {
            std::string cl = classifyException(what);
            rec.set("threw", cl); trace.push(rec);
            if (cl == "eval-cap") { c.skip("eval-cap"); c.obs("eval-cap:" + name); return; }
            int att1 = att0; try { att1 = integ->getNumStepsAttempted(); } catch (...) {}
            if (att1 > att0) {
                // a documented StepFailed after genuine step attempts (numerical failure of the
                // problem: singular configuration, step size underflow) is an outcome, not a verdict
                c.obs("step-failed-numerically:" + name + ":" + cl); c.require("outcome:" + kn + ":documented-StepFailed-after-step-attempts", true, nullptr);
                return;
            }
            // a legal request refused without a single step attempt
            std::string sit = ":after-" + prev;
            if (isCPodes && startAtFinal) { c.viol("I3:CPodes:beyond-final-or-invalid-state(after reinitialize at the final time)", wit(firstLine(what, 500))); return; }
            if (isCPodes && !interpOn && cpEventPending) { c.viol(kCpEventKey, wit("legal request refused: " + firstLine(what, 500))); return; }
            else if (isCPodes && cpTiny) { c.viol("I1-I6:CPodes:invariant-broken-after-sub-resolution-time-request", wit(firstLine(what, 500))); return; }
            c.viol("exc:" + kn + ":legal-request-refused(" + cl + ")" + ion + sit, wit(firstLine(what, 500)));
            return;
        }

        const double t = integ->getTime(), tA = integ->getAdvancedTime();
        const bool interp = integ->isStateInterpolated();
        const bool isOver = integ->isSimulationOver();
        const int dSteps = integ->getNumStepsTaken() - steps0;
        const std::string sn = statusName(st);
        rec.set("status", sn).set("t", t).set("tAdvAfter", tA).set("interp", interp).set("steps", dSteps).set("over", isOver);
        trace.push(rec);
        if (c.args.verbose) fprintf(stderr, "%s\n", rec.dump().c_str());
        c.obs("calls"); c.obs("status:" + sn);
        if (!(std::isfinite(t) && std::isfinite(tA))) { c.viol("nan:" + kn + ":time-not-finite", wit("time not finite after return")); return; }
        const bool isReport = st == Integrator::ReachedReportTime, isSched = st == Integrator::ReachedScheduledEvent,
                   isEnd = st == Integrator::EndOfSimulation, isStart = st == Integrator::StartOfContinuousInterval,
                   isEvent = st == Integrator::ReachedEventTrigger, isAdv = st == Integrator::TimeHasAdvanced,
                   isLimit = st == Integrator::ReachedStepLimit;

        // All invariants of this call are evaluated; only the first failing one (in the order
        // below: advanced state, returned time, status/time agreement, termination, ...) is
        // reported and the sequence ends there, because later alarms in the same history are
        // consequences (DESIGN 1.5a "attribute, then key"). Exception: the by-design CPodes
        // overshoot of a scheduled time (known finding) does not end the sequence.
        struct Fail { std::string key, what; Json extra; };
        std::vector<Fail> fails;
        auto V = [&](const std::string& key, bool ok, const std::string& what, const Json& extra = Json()) {
            if (ok) c.require(key, true, nullptr); else fails.push_back({key, what, extra});
        };
        const std::string knownOvershoot = "I3:CPodes:advanced-beyond-scheduled(interp on)";

        // ---- I3
        V("I3:" + kn + ":advanced-beyond-final" + ion, !o.hasFinal || tA <= o.tFinal, "getAdvancedTime() > finalTime at return (" + sn + ")");
        V("I3:" + kn + ":advanced-beyond-scheduled" + ion, tA <= effS, "getAdvancedTime() > scheduledEventTime at return (" + sn + ")");
        if (!interpOn && !isEvent) V("I3:" + kn + ":advanced-beyond-report(interp off)", tA <= std::max(effR, tAdv), "interpolation disallowed but getAdvancedTime() > reportTime (" + sn + ")");
        if (!interpOn && isReport) V("I3:" + kn + ":interpolated-report(interp off)", !interp, "interpolation disallowed but report state is interpolated");
        // ---- I2
        if (o.hasFinal) V("I2:" + kn + ":time-beyond-final:" + sn, t <= o.tFinal, "getTime() > finalTime");
        V("I2:" + kn + ":time-beyond-scheduled:" + sn, t <= effS, "getTime() > scheduledEventTime");
        V("I2:" + kn + ":time-beyond-report:" + sn, t <= effR, "getTime() > reportTime");
        // ---- I4
        if (isReport) V("I4:" + kn + ":ReachedReportTime-not-at-report-or-final", t == effR || (o.hasFinal && t == o.tFinal && o.tFinal < effR), "ReachedReportTime at a time that is neither the report nor the final time");
        if (isSched) V("I4:" + kn + ":ReachedScheduledEvent-not-at-scheduled", t == effS, "ReachedScheduledEvent but time != scheduledEventTime");
        if (isEnd) V("I4:" + kn + ":EndOfSimulation-not-at-final", o.hasFinal && t == o.tFinal, "EndOfSimulation but time != finalTime");
        if (!isReport && !isEvent) V("I4:" + kn + ":" + sn + "-state-is-not-the-advanced-state", !interp && t == tA, "non-report return must deliver the advanced state");
        V("I4:" + kn + ":isStateInterpolated-inconsistent:" + sn, interp ? (t <= tA) : (t == tA), "isStateInterpolated() disagrees with getTime() vs getAdvancedTime()");
        // ---- I1
        V("I1:" + kn + ":time-decreased:" + sn, t >= tPrevRet, "returned time < previously returned time", Json::obj().set("previous", tPrevRet).set("now", t));
        // ---- I5
        if (isEnd) {
            V("I5:" + kn + ":end-returned-twice", endCount == 0, "second EndOfSimulation");
            V("I5:" + kn + ":end-without-prior-return-at-final", retAtFinal, "EndOfSimulation without an earlier return of the state at the final time");
            V("I5:" + kn + ":isSimulationOver-false-after-end", isOver, "isSimulationOver()==false after EndOfSimulation");
            ++endCount;
        } else {
            V("I5:" + kn + ":isSimulationOver-true-without-end", !isOver, "isSimulationOver()==true but no EndOfSimulation/termination");
            // (IntegratorRep.h's table lets the next return be "Done"; an extra ->Final report of the same
            //  time is not excluded by the property statement: observed and counted, not judged)
            if (mustEndNext && !isStart) c.obs("extra-return-at-final-before-end:" + kn);
        }
        // ---- I6
        if (isEvent) {
            try {
                Vec2 w = integ->getEventWindow();
                Json jw = Json::obj().set("window", Json::arr().push((double)w[0]).push((double)w[1]));
                rec.set("window", Json::arr().push((double)w[0]).push((double)w[1]));
                c.obs("event-windows");
                V("I6:" + kn + ":window-low-is-not-returned-time", w[0] == t && w[1] == tA && w[0] < w[1], "event window (tLow,tHigh] must have tLow==getTime(), tHigh==getAdvancedTime()", jw);
                auto inside = [&](double x) { return w[0] < x && x < w[1]; };
                std::string when = dSteps == 0 ? "(window localized during an earlier call)" : "";
                V("I6:" + (dSteps == 0 && !isCPodes ? std::string("AbstractIntegratorRep") : kn) + ":report-time-inside-window" + when, !inside(effR), "reportTime strictly inside event window", jw);
                V("I6:" + kn + ":scheduled-time-inside-window" + when, !inside(effS), "scheduledEventTime strictly inside event window", jw);
                if (o.hasFinal) V("I6:" + kn + ":final-time-inside-window", !inside(o.tFinal), "finalTime strictly inside event window", jw);
                lastEventHigh = w[1];
                const Array_<EventId>& ids = integ->getTriggeredEvents();
                V("I6:" + kn + ":no-triggered-events-listed", ids.size() > 0, "ReachedEventTrigger with empty getTriggeredEvents()");
            } catch (const std::exception& e) {
                V("I6:" + kn + ":event-info-unavailable-after-ReachedEventTrigger", false, firstLine(e.what(), 300));
            }
        }
        // ---- I7
        if (isLimit) {
            if (o.stepLimit == 0 && isCPodes && dSteps >= 500)
                V("I7:CPodes:ReachedStepLimit-without-limit-set(CPODES default mxstep=500)", false, "ReachedStepLimit although setInternalStepLimit was never called (documented: unlimited)");
            else V("I7:" + kn + ":ReachedStepLimit-without-limit-reached", o.stepLimit > 0 && dSteps >= o.stepLimit, "ReachedStepLimit but fewer internal steps than the limit (or no limit set)");
        }
        if (o.stepLimit > 0) V("I7:" + kn + ":more-steps-than-limit", dSteps <= o.stepLimit, "more internal steps in one call than setInternalStepLimit allows");
        // ---- I8
        if (isAdv) V("I8:" + kn + ":TimeHasAdvanced-without-return-every-step", o.everyStep, "TimeHasAdvanced but setReturnEveryInternalStep was not requested");
        if (o.everyStep) V("I8:" + kn + ":several-steps-despite-return-every-step", dSteps <= 1, "more than one internal step taken in a call with return-every-step");
        // ---- I9
        if (call == 0) V("I9:" + kn + ":first-call-not-StartOfContinuousInterval-at-t0", isStart && t == t0 && dSteps == 0, "first call after initialize()");
        else if (isStart) V("I9:" + kn + ":unexpected-StartOfContinuousInterval", expectStart && t == tAdv && dSteps == 0, "Start without initialize/reinitialize, or not at the advanced time");
        // ---- I10
        if (effR == tCur && call > 0 && !expectStart)
            V("I10:" + kn + ":report-at-current-time-not-immediate", t == tCur && dSteps == 0, "reportTime == current time must return immediately at that time");
        // ---- NaN in the returned state without a reported failure
        {
            const Vector& y = integ->getState().getY(); bool fin = true;
            for (int k = 0; k < y.size(); ++k) if (!std::isfinite(y[k])) fin = false;
            if (!fin && (o.fixedStep > 0 || kind == IK_SEE) && fails.empty()) {
                // a user-forced fixed step that is unstable for the problem: the method cannot react; counted, not judged
                c.obs("fixed-step-blow-up:" + name); c.skip("nonfinite-state-with-forced-fixed-step"); return;
            }
            V("nan:" + kn + ":state-not-finite:" + sn, fin, "NaN/Inf in returned state");
        }
        // ---- CPodes: attribute to the situation that is the root cause (DESIGN 1.5a), then key
        if (isCPodes && !fails.empty()) {
            for (auto& f : fails) {
                if (f.key == knownOvershoot) continue;
                if (startAtFinal) { f.what += " [first failing invariant: " + f.key + "]"; f.key = "I3:CPodes:beyond-final-or-invalid-state(after reinitialize at the final time)"; }
                else if (!interpOn && cpEventPending) { f.what += " [first failing invariant: " + f.key + "]"; f.key = kCpEventKey; }
                else if (cpTiny) { f.what += " [first failing invariant: " + f.key + "]"; f.key = "I1-I6:CPodes:invariant-broken-after-sub-resolution-time-request"; }
                break;
            }
        }
        if (!fails.empty()) {
            Json also = Json::arr(); for (size_t k = 1; k < fails.size(); ++k) also.push(fails[k].key);
            bool stop = false;
            for (size_t k = 0; k < fails.size(); ++k) {
                Json w = wit(fails[k].what).set("also_failed_in_same_call", also).set("detail", fails[k].extra);
                c.viol(fails[k].key, w);
                if (fails[k].key != knownOvershoot) { stop = true; break; }
            }
            if (stop) return;
        }

        // ---- coverage: state-machine edge
        {
            std::string bind;
            if (isStart) bind = "start"; else if (isEnd) bind = "final"; else if (isSched) bind = "sched"; else if (isAdv) bind = "everystep";
            else if (isLimit) bind = "steplimit"; else if (isEvent) bind = "event";
            else bind = (t == effR) ? (interp ? "report-interp" : dSteps == 0 ? "report-immediate" : "report-exact") : "final-before-report";
            std::string co;
            co += (effR == effS) ? 's' : '-'; co += !o.hasFinal ? '-' : effR == o.tFinal ? 'f' : effR > o.tFinal ? 'F' : '-'; co += (o.hasFinal && effS == o.tFinal) ? 'e' : '-';
            c.cover(name + "|" + prev + ">" + sn + "|" + bind + "|" + co + "|" + (interpOn ? "I" : "N") + (o.everyStep ? "E" : "-") + (o.stepLimit ? "L" : "-"));
        }

        if (!isEvent && dSteps > 0) cpEventPending = false;   // CPODES has moved on past the event step
        // ---- client model update + event handling (P4)
        tPrevRet = t; prev = sn;
        if (o.hasFinal && t == o.tFinal && !isEnd) retAtFinal = true;
        mustEndNext = o.hasFinal && t == o.tFinal && !isEnd && !isEvent;
        if (isStart) { expectStart = false; if (o.hasFinal && t == o.tFinal) startAtFinal = true; }
        if (isSched && o.stepperMode) { while (schedNext < sched.size() && sched[schedNext] <= t) ++schedNext; }
        if (isEnd) over = true;

        if (isEvent || isSched || isAdv || isEnd) {
            double u = r.uni();
            double pMod = isEvent ? 0.45 : isSched ? 0.25 : isAdv ? 0.08 : 0.15;
            bool modify = u < pMod, terminate = !isEnd && (u > 0.97);
            Stage lowest = Stage::Report;
            try {
                if (modify) {
                    State& a = integ->updAdvancedState();
                    if (a.getNZ() > 0 && r.coin()) { a.updZ()[r.integer(0, a.getNZ() - 1)] *= r.uni(0.5, 1.2); lowest = Stage::Dynamics; }
                    else if (a.getNU() > 0) { a.updU()[r.integer(0, a.getNU() - 1)] *= -r.uni(0.5, 1.0); lowest = Stage::Velocity; }
                    else if (a.getNZ() > 0) { a.updZ()[0] *= 0.9; lowest = Stage::Dynamics; }
                    c.obs("handler-modified-state");
                }
                c.setPhase("C19 reinitialize " + name + " after " + sn);
                integ->reinitialize(lowest, terminate);
            } catch (const std::exception& e) {
                c.viol("exc:" + kn + ":reinitialize-threw:after-" + sn, wit(firstLine(e.what(), 400))); return;
            }
            if (isEvent) cpEventPending = true;
            if (lowest < Stage::Report) {
                cpEventPending = false; cpTiny = false;      // CPODES is re-initialized from the advanced state
                if (isEnd) revived = true;     // the client did what TimeStepper does after a Termination handler changed the state
                else { expectStart = true; mustEndNext = false; }
            }
            if (terminate) { over = true; overByHandler = true; c.obs("handler-terminated");
                c.require("I5:" + kn + ":isSimulationOver-false-after-handler-termination", integ->isSimulationOver(), [&] { return wit("reinitialize(...,shouldTerminate=true) did not end the simulation"); }); }
        }
    }
    if (c.wantSample() && (i % 7) == 0) c.sample(Json::obj().set("integrator", name).set("system", sysName).set("opts", o.toJson()).set("n_calls", maxCalls));
}

//==============================================================================
//                                   C20
//==============================================================================
// Exponent of the global error in the accuracy implied by *local* error control:
// the step is chosen so that est ~ h^pe equals acc while the propagated solution has
// global order pg, hence e ~ acc^(pg/pe). (RKM/RK3/RK2: pg==pe; Feldberg propagates the
// 4th-order solution with an h^5 estimate; Verlet 2/3; the two first-order Euler variants 1/2.)
static double accExponent(int kind) {
    switch (kind) {
    case IK_ExplicitEuler: case IK_SEE2: return 0.5;
    case IK_Verlet: return 2.0 / 3.0;
    case IK_RKF: case IK_RKM: return 0.8;   // Merson's estimate is 5th order on linear constant-coefficient systems (see its source comment)
    default: return 1.0;
    }
}
// loosest / tightest accuracy exponent (10^-d) exercised per integrator (cost bound: steps ~ acc^(-1/pe))
static void accRange(int kind, int& dLo, int& dHi) {
    dLo = 2;
    switch (kind) {
    case IK_ExplicitEuler: case IK_SEE2: dHi = 6; break;
    case IK_RK2: dHi = 7; break;
    case IK_Verlet: dHi = 8; break;
    default: dHi = 9;
    }
}
// Calibrated constants (10 seeds x 640 cases on the unchanged tree, plain flavour; see the
// builder's report). R = e / (acc^alpha * (1+rho*T)) observed max: ExplicitEuler 3.0, RK2 0.66,
// RK3 0.89, RKF 2.4, RKM 0.37, SEE2 0.69, Verlet 0.51, CPodesAdams 12, CPodesBDF 26.
// "bound" is the generous (>= 30x margin) bound applied to every class; "tight" is 4x the
// observed calibration max of e / (acc^alpha * rho*T) (2.5x the max over a 52800-case thorough run)
// on the undamped linear oscillator classes, whose natural spread is only ~4x, so that a 10x
// loss of accuracy is visible.
static double kBound(int kind) { return (kind == IK_CPodesBDF || kind == IK_CPodesAdams) ? 1000 : 100; }
static double kTight(int kind, const std::string& cls) {
    const bool z = (cls == "lin-osc");
    switch (kind) {
    case IK_ExplicitEuler: return z ? 4.4 : 6.8;
    case IK_RK2: return z ? 2.0 : 2.8;
    case IK_RK3: return z ? 1.5 : 1.25;
    case IK_RKF: return z ? 1.8 : 1.75;
    case IK_RKM: return z ? 1.5 : 1.7;
    case IK_SEE2: return z ? 3.0 : 0.47;
    case IK_Verlet: return z ? 1.4 : 1.35;
    default: return 0;     // CPodes: variable order, spread too wide for a tight constant
    }
}
// interpolated-state excess over 5x the bracketing step errors, in units of acc^alpha (observed max:
// RKF 20 -- cubic Hermite interpolation is O(h^4) while h ~ acc^(1/5); all others < 0.5)
static double kInterp(int kind) { return kind == IK_RKF ? 60 : 3; }
static bool tightClass(int kind, const std::string& cls) { return kTight(kind, cls) > 0 && (cls == "osc" || cls == "lin-osc"); }

struct ErrScale { double scale = 1; };
static double stateError(const OdeDef& d, const State& s, double* scaleOut = nullptr) {
    std::vector<double> ye; d.exact(s.getTime(), ye);
    const Vector& y = s.getY();
    double e = 0, sc = 1;
    for (int k = 0; k < (int)ye.size(); ++k) { e = std::max(e, std::fabs(y[k] - ye[k])); sc = std::max(sc, std::fabs(ye[k])); if (!std::isfinite(y[k])) e = Inf; }
    if (scaleOut) *scaleOut = sc;
    return e / sc;
}

struct RunResult {
    bool ok = false; std::string fail;
    double eEnd = 0; bool endInterpolated = false;   // error of the state delivered at T (a step state except for CPodes)
    double eInterpMax = 0; int nInterp = 0;   // interpolated report states
    double eStepMax = 0; int nSteps = 0;
    // every-step mode: sequence of (t, err, interpolated)
    std::vector<std::array<double, 3>> seq;
};

// Drive one simulation to T. reports: sorted report times in (t0,T). everyStep: also return after every step.
static RunResult runSim(Ctx& c, const std::shared_ptr<OdeDef>& def, int kind, double acc, bool infNorm, double fixedStep,
                        double T, const std::vector<double>& reports, bool everyStep) {
    RunResult R;
    def->evals = 0;
    OdeSystem sys(def);
    State init = sys.realizeTopology(); sys.realizeModel(init); init.setTime(def->t0);
    try {
        std::shared_ptr<Integrator> integ = makeInteg(kind, sys, fixedStep > 0 ? fixedStep : 0.01);
        if (acc > 0) integ->setAccuracy(acc);
        if (infNorm) integ->setUseInfinityNorm(true);
        if (fixedStep > 0 && kind != IK_SEE) integ->setFixedStepSize(fixedStep);
        if (everyStep) integ->setReturnEveryInternalStep(true);
        integ->initialize(init);
        size_t nextRep = 0; long guard = 0;
        for (;;) {
            if (++guard > 3000000) { R.fail = "call-guard"; return R; }
            double tR = nextRep < reports.size() ? reports[nextRep] : T;
            Integrator::SuccessfulStepStatus st = integ->stepTo(tR, T);
            const State& s = integ->getState();
            double t = s.getTime();
            bool interp = integ->isStateInterpolated();
            if (st == Integrator::StartOfContinuousInterval) continue;
            double e = stateError(*def, s);
            if (everyStep) R.seq.push_back({t, e, interp ? 1.0 : 0.0});
            if (interp) { R.eInterpMax = std::max(R.eInterpMax, e); ++R.nInterp; } else { R.eStepMax = std::max(R.eStepMax, e); }
            if (st == Integrator::ReachedReportTime && nextRep < reports.size() && t >= reports[nextRep]) ++nextRep;
            if (t >= T) { R.eEnd = e; R.endInterpolated = interp; break; }
            if (st == Integrator::EndOfSimulation) { R.fail = "unexpected-end"; return R; }
            if (st == Integrator::ReachedScheduledEvent) { R.fail = "scheduled-before-T"; return R; }
        }
        R.nSteps = integ->getNumStepsTaken();
        R.ok = true;
    } catch (const std::exception& e) {
        R.fail = "threw:" + classifyException(e.what());
    }
    return R;
}

static void checkC20(Ctx& c, long i, Rng& r) {
    const bool calib = c.args.getInt("calib", 0) != 0;
    long cell = i + (long)(c.args.seed % 9973);
    int kind = (int)(cell % IK_Count);
    std::string cls = kC20Classes[(cell / IK_Count) % kNC20Classes];
    int mode = (int)((cell / (IK_Count * kNC20Classes)) % 4);   // 0,1: accuracy (A), 2: fixed-step order (B), 3: interpolation bracketing (C)
    const bool isCPodes = (kind == IK_CPodesBDF || kind == IK_CPodesAdams);
    if (kind == IK_SEE) { mode = 2; if (cls == "lin-stiff") cls = "lin-decay"; }   // fixed-step only method
    if (mode == 2 && (isCPodes || cls == "lin-stiff")) mode = 0;
    const std::string name = integName(kind);
    c.setPhase("C20 build " + name + " " + cls);
    const double t0 = r.coin(0.7) ? 0.0 : r.uni(0.0, 3.0);
    std::shared_ptr<OdeDef> def = makeByClass(cls, r, t0);
    def->evalCap = 60000000;
    const double rho = def->rho;
    const double T = t0 + r.uni(2.0, 4.0);
    const double rhoT = rho * (T - t0);

    // harness self-check: the "exact" solution satisfies the ODE (central difference)
    {
        double tt = t0 + r.uni(0.1, 1.0) * (T - t0), h = 1e-5; std::vector<double> ym, yp, y0;
        def->exact(tt - h, ym); def->exact(tt + h, yp); def->exact(tt, y0);
        double ud[8], zd[8]; const int nq = def->nq;
        def->rhs(tt, y0.data(), y0.data() + nq, y0.data() + 2 * nq, ud, zd);
        double worst = 0;
        for (int k = 0; k < def->ny(); ++k) {
            double fd = (yp[k] - ym[k]) / (2 * h), f = k < nq ? y0[nq + k] : k < 2 * nq ? ud[k - nq] : zd[k - 2 * nq];
            worst = std::max(worst, std::fabs(fd - f) / (1 + std::fabs(f)));
        }
        if (!(worst < 1e-5 * (1 + rho * rho * rho))) { c.viol("harness:exact-solution-inconsistent:" + cls, Json::obj().set("worst", worst).set("sys", def->desc)); return; }
    }

    const double alpha = accExponent(kind);
    int dLo, dHi; accRange(kind, dLo, dHi);
    const bool infNorm = r.coin(cls.compare(0, 4, "mix-") == 0 ? 0.6 : 0.3);   // the mixed classes exist to exercise the per-block norm bookkeeping
    auto baseWit = [&](const std::string& what) { return Json::obj().set("integrator", name).set("sys", def->desc).set("t0", t0).set("T", T).set("infNorm", infNorm).set("what", what); };

    if (mode == 0 || mode == 1) {
        // -------- A: global error vs requested accuracy, two-sided
        int d = dLo + (int)((cell / (IK_Count * kNC20Classes * 4) + r.integer(0, 50)) % (dHi - 2 - dLo + 1));   // leave room for acc/100
        double acc = std::pow(10.0, -d) * (r.coin(0.5) ? 1.0 : r.uni(1.0, 3.0));
        std::vector<double> reports; int nr = r.integer(3, 9);
        for (int k = 0; k < nr; ++k) reports.push_back(t0 + r.uni(0.02, 0.98) * (T - t0));
        std::sort(reports.begin(), reports.end());
        c.setPhase("C20 A " + name + " " + cls + " acc=1e-" + std::to_string(d));
        RunResult a = runSim(c, def, kind, acc, infNorm, 0, T, reports, false);
        if (!a.ok) { if (a.fail == "threw:eval-cap") { c.skip("eval-cap"); return; } c.viol("run:" + name + ":" + cls + ":" + a.fail, baseWit("simulation at acc failed").set("acc", acc)); return; }
        RunResult b = runSim(c, def, kind, acc / 100, infNorm, 0, T, reports, false);
        if (!b.ok) { if (b.fail == "threw:eval-cap") { c.skip("eval-cap"); return; } c.viol("run:" + name + ":" + cls + ":" + b.fail, baseWit("simulation at acc/100 failed").set("acc", acc / 100)); return; }
        const double roundoff = 1e-11 * (1 + rhoT);
        auto bound = [&](double ac) { return kBound(kind) * std::pow(ac, alpha) * (1 + rhoT) + roundoff; };
        const std::string dec = "1e-" + std::to_string(d);
        c.cover(name + "|" + cls + "|" + dec + "|" + (infNorm ? "inf" : "rms") + "|step");
        if (a.nInterp) c.cover(name + "|" + cls + "|" + dec + "|" + (infNorm ? "inf" : "rms") + "|interp");
        auto W = [&](const RunResult& x, double ac) { return baseWit("global error vs accuracy").set("acc", ac).set("eEnd", x.eEnd).set("eInterpMax", x.eInterpMax).set("eStepMax", x.eStepMax).set("steps", x.nSteps).set("rhoT", rhoT).set("alpha", alpha); };
        for (int pass = 0; pass < 2; ++pass) {
            const RunResult& x = pass ? b : a; double ac = pass ? acc / 100 : acc;
            c.check("bound[" + name + "]:" + cls + ":step-states", std::max(x.eEnd, x.eStepMax), bound(ac), [&] { return W(x, ac); });
            if (x.nInterp) c.check("bound[" + name + "]:" + cls + ":interpolated-reports", x.eInterpMax, 2 * bound(ac), [&] { return W(x, ac); });
            if (tightClass(kind, cls)) c.check("tight[" + name + "]:" + cls, x.eEnd, kTight(kind, cls) * std::pow(ac, alpha) * rhoT + roundoff, [&] { return W(x, ac); });
            if (calib) fprintf(stderr, "CAL A %s %s acc=%.3g inf=%d Rb=%.4g Ri=%.4g Rt=%.4g mult=%.4g steps=%d\n", name.c_str(), cls.c_str(), ac, (int)infNorm,
                               std::max(x.eEnd, x.eStepMax) / (std::pow(ac, alpha) * (1 + rhoT)), x.eInterpMax / (std::pow(ac, alpha) * (1 + rhoT)),
                               x.eEnd / (std::pow(ac, alpha) * rhoT), x.eEnd / ac, x.nSteps);
            if (x.eEnd > 1e3 * ac) c.obs("error-over-1000x-accuracy:" + name);
        }
        // tightening by 100 must not make it substantially worse
        c.check("tighten[" + name + "]:" + cls, b.eEnd, std::max(2 * a.eEnd, bound(acc / 100)), [&] { return W(b, acc / 100).set("eEnd_at_acc", a.eEnd); });
        if (c.wantSample() && i % 5 == 0) c.sample(W(a, acc).set("eEnd_at_acc_over_100", b.eEnd));
        return;
    }

    if (mode == 2) {
        // -------- B: fixed-step order of convergence
        // Error measure: max over 8 sample times in the second half of the run (a single end-time
        // error can pass through zero and fake any order); order from the h -> h/4 ratio.
        int pDoc = 0;
        { OdeSystem tmp(def); std::shared_ptr<Integrator> ii = makeInteg(kind, tmp, 0.01); pDoc = ii->getMethodMinOrder(); }
        double rh = pDoc >= 4 ? r.uni(0.06, 0.18) : r.uni(0.08, 0.25);   // rho*h: asymptotic regime, errors above round-off
        double h0 = rh / rho; int N = std::max(16, (int)std::ceil((T - t0) / h0)); N = (N + 15) / 16 * 16; h0 = (T - t0) / N;
        std::vector<double> samples; for (int k = 9; k <= 15; ++k) samples.push_back(t0 + (T - t0) * k / 16.0);
        c.setPhase("C20 B " + name + " " + cls);
        // "as the step shrinks": if the order seen at (h, h/2, h/4) is deficient the step is halved up to three
        // more times (pre-asymptotic cancellation of the leading error term is not a violation); the verdict
        // uses the finest pair measured above the round-off floor.
        std::vector<double> e; double pBest = 0, p01 = 0; int kUsed = 0; bool floorHit = false;
        for (int k = 0; k < 6; ++k) {
            // accuracy only matters for Verlet here (tolerance of its functional iteration); the step is fixed
            RunResult x = runSim(c, def, kind, 1e-8, false, h0 / (1 << k), T, samples, false);
            if (!x.ok) { if (x.fail == "threw:eval-cap") { c.skip("eval-cap"); return; } c.viol("run:" + name + ":" + cls + ":fixed-step:" + x.fail, baseWit("fixed-step simulation failed").set("h", h0 / (1 << k))); return; }
            e.push_back(std::max(std::max(x.eEnd, x.eStepMax), x.eInterpMax));
            if (k == 1) p01 = std::log2(e[0] / e[1]);
            if (k < 2) continue;
            if (!(e[k] > 1e-11 * (1 + rhoT))) { if (k == 2) { c.skip("order:error-at-roundoff-floor"); return; } e.pop_back(); floorHit = true; break; }
            kUsed = k;
            pBest = std::max(0.5 * std::log2(e[k - 2] / e[k]), std::log2(e[k - 1] / e[k]));
            if (pBest >= pDoc - 0.3) break;
        }
        // marginally deficient (0.3..0.6 below) but the next halving is already at the round-off floor: cannot
        // decide whether the asymptotic regime was reached. A deficit of more than 0.6 at the finest measurable
        // pair is judged.
        if (floorHit && pBest < pDoc - 0.3 && pBest >= pDoc - 0.6) { c.skip("order:marginally-deficient,refinement-hits-roundoff-floor"); return; }
        c.cover(name + "|" + cls + "|fixed-step-order");
        if (kUsed > 2) c.obs("order:extra-halvings-needed:" + name);
        if (calib) fprintf(stderr, "CAL B %s %s pDoc=%d p02=%.3f p01=%.3f p12=%.3f kUsed=%d rh=%.3g\n", name.c_str(), cls.c_str(), pDoc, pBest, p01, pBest, kUsed, rh);
        c.check("order[" + name + "]:below-documented-order", std::max(0.0, pDoc - pBest), 0.3,
                [&] { return baseWit("observed order of convergence at fixed step h, h/2, h/4, ... (max error over 7 sample times)").set("documented_order", pDoc).set("observed_order_finest_pair", pBest).set("h", h0).set("halvings", kUsed).set("errors", jvec(e)); });
        return;
    }

    // -------- C: interpolated states vs the step states that bracket them
    {
        int d = dLo + (int)((cell / (IK_Count * kNC20Classes * 4) + r.integer(0, 50)) % (dHi - dLo + 1));
        double acc = std::pow(10.0, -d);
        std::vector<double> reports; int nr = r.integer(25, 60);
        for (int k = 0; k < nr; ++k) reports.push_back(t0 + r.uni(0.02, 0.98) * (T - t0));
        std::sort(reports.begin(), reports.end());
        c.setPhase("C20 C " + name + " " + cls + " acc=1e-" + std::to_string(d));
        RunResult x = runSim(c, def, kind, acc, infNorm, 0, T, reports, true);
        if (!x.ok) { if (x.fail == "threw:eval-cap") { c.skip("eval-cap"); return; } c.viol("run:" + name + ":" + cls + ":" + x.fail, baseWit("every-step simulation failed").set("acc", acc)); return; }
        const double roundoff = 1e-11 * (1 + rhoT);
        double worst = 0, worstTol = 1, worstX = 0; int nI = 0; Json ww = Json::obj();
        for (size_t k = 0; k < x.seq.size(); ++k) {
            if (x.seq[k][2] == 0) continue;
            double eL = 0, eR = 0; bool haveR = false;
            for (size_t j = k; j-- > 0;) if (x.seq[j][2] == 0) { eL = x.seq[j][1]; break; }
            for (size_t j = k + 1; j < x.seq.size(); ++j) if (x.seq[j][2] == 0) { eR = x.seq[j][1]; haveR = true; break; }
            if (!haveR) continue;
            double tol = 5 * std::max(eL, eR) + kInterp(kind) * std::pow(acc, alpha) + roundoff;
            ++nI; worstX = std::max(worstX, (x.seq[k][1] - 5 * std::max(eL, eR)) / std::pow(acc, alpha));
            if (x.seq[k][1] / tol > worst / worstTol) { worst = x.seq[k][1]; worstTol = tol; ww = Json::obj().set("t", x.seq[k][0]).set("e_interp", x.seq[k][1]).set("e_left", eL).set("e_right", eR); }
        }
        if (nI == 0) { c.skip("interp:no-bracketed-interpolated-report"); return; }
        c.cover(name + "|" + cls + "|1e-" + std::to_string(d) + "|" + (infNorm ? "inf" : "rms") + "|bracketed-interp");
        c.obs("bracketed-interpolated-states", nI);
        if (calib) fprintf(stderr, "CAL C %s %s acc=%.3g ratio=%.4g X=%.4g e=%.3g nI=%d\n", name.c_str(), cls.c_str(), acc, worst / worstTol, worstX, worst, nI);
        c.check("interp[" + name + "]:" + cls + ":worse-than-bracketing-steps", worst, worstTol, [&] { return baseWit("interpolated state less accurate than 5x bracketing step states + K acc").set("acc", acc).set("worst", ww); });
    }
}

int main(int argc, char** argv) {
    Args a = parseArgs(argc, argv);
    Ctx c(a);
    const std::string p = a.prop;
    return runCases(c, [&](long i, Rng& r) {
        if (p == "C19") checkC19(c, i, r);
        else if (p == "C20") checkC20(c, i, r);
        else { fprintf(stderr, "mon_integ: unknown property %s\n", p.c_str()); exit(2); }
    });
}
