// mon_measure.cpp — C23 "Measures compute what their definitions say"
//
// Builds a small custom System (DefaultSystemSubsystem, z' = c exactly integrable plus one
// "pacemaker" z' = a*cos(w t) that makes error-controlled integrators vary their step), installs a
// random DAG of built-in Measures (Real or Vec3) over operands with analytic time signals, integrates
// with a seeded choice of integrator / accuracy / report grid, and at EVERY state the integrator
// returns (internal step ends and interpolated report states) compares each measure with what its
// documentation prescribes.
//
// Oracles
//  * formula measures (Constant, Zero, One, Time, Variable, Sinusoid and their derivatives; Plus, Minus,
//    Scale relative to the values their operands return at the same state): exact to rounding;
//  * Integrate: analytic integral of the operand signal from the initial-condition value, within
//    K*accuracy (error-controlled integrators; exact class for piecewise-linear signals otherwise);
//    derivative k of Integrate = derivative k-1 of the integrand; setValue() is visible to getValue();
//  * Differentiate: operand supplies a derivative -> equal to it; otherwise the documented estimator
//    (Measure.h: fdot = 2(f-f0)/(t-t0) - fdot0, first order when fdot0 not available, fdot0 when t==t0,
//    0 at initialization), mirrored by the harness from the samples at internal step ends, and a loose
//    tracking bound against the analytic derivative after >= 2 steps;
//  * Minimum/Maximum/MinAbs/MaxAbs: elementwise extreme of the operand over the step-end samples so far
//    and the current state (mirror), never more extreme than the analytic supremum over [t0,t], at least
//    as extreme as every operand value at previously returned states, getTimeOfExtremeValue consistent;
//  * Delay(tau): documented behaviour (constant at the initial value before the start; linear
//    interpolation between buffered step-end samples; extrapolation inside the current step), mirrored;
//    and |Delay - f(t-tau)| within the interpolation/extrapolation error bound for analytic operands
//    (exact for linear operands).
//
// Preconditions kept by the generator: operands are created before the measures that use them (so they
// are initialized first); measures live in the same Subsystem; delays > 0; no discontinuous state
// change during the run (no event handlers); Integrate operands have closed-form signals.
// Mirrors need every internal step, so they are judged only in runs with setReturnEveryInternalStep(true)
// (or without interpolation, where every returned state is a step end).
// SampleAndHold is declared but not implemented in this tree (cannot link): not exercised.
//
// Key format: <check>:<measure kind>:<value type>[:detail]
#include "SimTKmath.h"
#include "SimTKcommon/internal/SystemGuts.h"
#include "vh.h"
#include <memory>
#include <sys/wait.h>

using namespace SimTK;
using vh::Json; using vh::Ctx; using vh::Rng; using vh::Args;
typedef std::vector<double> VD;
static const double EPS = 2.220446049250313e-16;

// ------------------------------------------------------------------ analytic scalar signals
struct Sig1 {
    static const int NC = 10;
    double c[NC];                       // polynomial in t
    struct S { double A, w, p; }; std::vector<S> s;
    Sig1() { for (double& x : c) x = 0; }
    double eval(double t, int k = 0) const {
        double r = 0;
        for (int i = NC - 1; i >= k; --i) { double f = 1; for (int j = 0; j < k; ++j) f *= (i - j); r = r * t + f * c[i]; }
        for (auto& q : s) r += q.A * std::pow(q.w, k) * std::sin(q.w * t + q.p + k * 1.5707963267948966);
        return r;
    }
    Sig1 scaled(double f) const { Sig1 r = *this; for (double& x : r.c) x *= f; for (auto& q : r.s) q.A *= f; return r; }
    Sig1 plus(const Sig1& o, double sg) const { Sig1 r = *this; for (int i = 0; i < NC; ++i) r.c[i] += sg * o.c[i]; for (auto q : o.s) { q.A *= sg; r.s.push_back(q); } return r; }
    Sig1 deriv() const { Sig1 r; for (int i = 1; i < NC; ++i) r.c[i - 1] = i * c[i]; for (auto q : s) { q.A *= q.w; q.p += 1.5707963267948966; r.s.push_back(q); } return r; }
    Sig1 integ(double t0, double ic) const {
        Sig1 r; for (int i = 0; i + 1 < NC; ++i) r.c[i + 1] = c[i] / (i + 1);
        for (auto q : s) { q.A /= q.w; q.p -= 1.5707963267948966; r.s.push_back(q); }
        r.c[0] += ic - r.eval(t0); return r;
    }
    // upper bound of |k-th derivative| on [a,b]
    double maxAbs(int k, double a, double b) const {
        double m = 0; Sig1 poly = *this; poly.s.clear();
        const int n = 64; double prev = 0, slope = 0;
        Sig1 pk = poly; for (int j = 0; j < k; ++j) pk = pk.deriv();
        Sig1 pk1 = pk.deriv();
        for (int i = 0; i <= n; ++i) { double t = a + (b - a) * i / n; m = std::max(m, std::fabs(pk.eval(t))); slope = std::max(slope, std::fabs(pk1.eval(t))); }
        (void)prev; m += slope * (b - a) / n;      // sampling slack
        for (auto& q : s) m += std::fabs(q.A) * std::pow(q.w, k);
        return m;
    }
    bool isLinear() const { for (int i = 2; i < NC; ++i) if (c[i] != 0) return false; return s.empty(); }
    double sup(double a, double b, int mode /*0 max,1 min,2 maxabs,3 minabs*/) const {   // dense sampling; callers add slack maxAbs(1)*dt
        const int n = 2000; double best = 0; bool first = true;
        for (int i = 0; i <= n; ++i) { double t = a + (b - a) * i / n, v = eval(t), key = mode == 0 ? v : mode == 1 ? -v : mode == 2 ? std::fabs(v) : -std::fabs(v);
            if (first || key > best) { best = key; first = false; } }
        return best;     // in "key" units (larger = more extreme)
    }
};
typedef std::vector<Sig1> Sig;

// ------------------------------------------------------------------ value-type helpers
template <class T> struct TT;
template <> struct TT<Real> { enum { N = 1 }; static const char* name() { return "Real"; } static Real make(const double* v) { return v[0]; } static double get(const Real& x, int) { return x; } };
template <> struct TT<Vec3> { enum { N = 3 }; static const char* name() { return "Vec3"; } static Vec3 make(const double* v) { return Vec3(v[0], v[1], v[2]); } static double get(const Vec3& x, int i) { return x[i]; } };

// ------------------------------------------------------------------ custom system
struct SysDef { int nz = 0; VD z0, c; double pa = 0, pw = 1; double t0 = 0; };   // z_i' = c_i (i<nz-1); last z is the pacemaker: a*cos(w t)
class MGuts : public System::Guts {
public:
    SysDef d; SubsystemIndex subsys;
    explicit MGuts(const SysDef& dd) : Guts("vhMeasure", "1.0.0"), d(dd) {}
    MGuts* cloneImpl() const override { return new MGuts(*this); }
    int realizeTopologyImpl(State& s) const override {
        Vector z(d.nz); for (int i = 0; i < d.nz; ++i) z[i] = d.z0[i];
        s.allocateZ(subsys, z);
        System::Guts::realizeTopologyImpl(s); return 0;
    }
    int realizeAccelerationImpl(const State& s) const override {
        Vector& zd = s.updZDot(subsys);
        for (int i = 0; i + 1 < d.nz; ++i) zd[i] = d.c[i];
        zd[d.nz - 1] = d.pa * std::cos(d.pw * s.getTime());
        System::Guts::realizeAccelerationImpl(s); return 0;
    }
    void multiplyByNImpl(const State&, const Vector& u, Vector& dq) const override { dq = u; }
    void multiplyByNTransposeImpl(const State&, const Vector& fq, Vector& fu) const override { fu = fq; }
    void multiplyByNPInvImpl(const State&, const Vector& dq, Vector& u) const override { u = dq; }
    void multiplyByNPInvTransposeImpl(const State&, const Vector& fu, Vector& fq) const override { fq = fu; }
};
class MSystem : public System {
public:
    explicit MSystem(const SysDef& d) {
        adoptSystemGuts(new MGuts(d));
        DefaultSystemSubsystem defsub(*this);
        dynamic_cast<MGuts&>(updSystemGuts()).subsys = defsub.getMySubsystemIndex();
        setHasTimeAdvancedEvents(false);
    }
};

// ------------------------------------------------------------------ custom operand measures (harness code, not judged)
// FnMeasure: analytic time signal per component, supplying nd derivatives. If zFirst >= 0 the value is read from the
// subsystem's z[zFirst+i] instead (z' = c: first derivative c, higher zero).
template <class T> class FnMeasure : public Measure_<T> {
public:
    SimTK_MEASURE_HANDLE_PREAMBLE(FnMeasure, Measure_<T>);
    FnMeasure(Subsystem& sub, const Sig& sig, int nd, int zFirst)
    :   Measure_<T>(sub, new Implementation(sig, nd, zFirst), AbstractMeasure::SetHandle()) {}
    SimTK_MEASURE_HANDLE_POSTSCRIPT(FnMeasure, Measure_<T>);
};
template <class T> class FnMeasure<T>::Implementation : public Measure_<T>::Implementation {
public:
    Implementation() : Measure_<T>::Implementation(1), nd(0), zFirst(-1) {}
    Implementation(const Sig& sg, int nd_, int zf) : Measure_<T>::Implementation(nd_ + 1), sig(sg), nd(nd_), zFirst(zf) {}
    Implementation* cloneVirtual() const override { return new Implementation(*this); }
    int getNumTimeDerivativesVirtual() const override { return nd; }
    Stage getDependsOnStageVirtual(int order) const override { return (zFirst >= 0 && order == 0) ? Stage::Dynamics : Stage::Time; }
    void calcCachedValueVirtual(const State& s, int k, T& value) const override {
        double v[3] = {0, 0, 0};
        for (int i = 0; i < TT<T>::N; ++i) {
            if (zFirst >= 0 && k == 0) v[i] = this->getSubsystem().getZ(s)[zFirst + i];
            else v[i] = sig[i].eval(s.getTime(), k);
        }
        value = TT<T>::make(v);
    }
private:
    Sig sig; int nd, zFirst;
};

// ------------------------------------------------------------------ measure DAG
enum Kind { K_CONST, K_ZERO, K_ONE, K_TIME, K_VAR, K_SINUS, K_FN, K_Z,               // leaves
            K_PLUS, K_MINUS, K_SCALE, K_INTEG, K_DIFF, K_MIN, K_MAX, K_MINABS, K_MAXABS, K_DELAY, K_NKINDS };
static const char* KNAME[K_NKINDS] = {"Constant", "Zero", "One", "Time", "Variable", "Sinusoid", "Fn", "Z",
                                      "Plus", "Minus", "Scale", "Integrate", "Differentiate", "Minimum", "Maximum", "MinAbs", "MaxAbs", "Delay"};
static bool isExtreme(int k) { return k >= K_MIN && k <= K_MAXABS; }

template <class T> struct Node {
    int kind = K_CONST; std::vector<int> kids; int depth = 1;
    Measure_<T> m;
    bool hasSig = false; Sig sig;          // closed form of the value (when everything below is analytic)
    bool hasTruth = false; Sig truth;      // what the value approximates (approximate Differentiate)
    bool numeric = false;                  // subtree contains a numerically integrated quantity
    double fac = 0, tau = 0; bool forceApprox = false, approx = false; int fnDerivs = 0;
    int nd = 0;                            // number of time derivatives the library reports
    VD cur;                                // value at the current state
    // mirrors (committed at internal step ends)
    VD E; double Etime = NaN;              // extreme
    VD f0, fd0; bool good0 = false; double t0s = NaN;   // differentiate
    VD bt; std::vector<VD> bv;             // delay buffer
    VD seenStep, seenInterp; VD seenStepT, seenInterpT;   // most extreme operand value (per element) at earlier returned step ends / interpolated states
    double supRun[3]; double supT = NaN;   // running analytic supremum (key units) per element, sampled up to supT
    double M1 = 0, M2 = 0;                 // bounds of |f'|, |f''| of the operand signal over the whole run
};

template <class T> struct Run {
    typedef TT<T> Tr; enum { N = Tr::N };
    Ctx& c; Rng& r; long ci;
    std::unique_ptr<MSystem> sys; SysDef sd;
    std::vector<Node<T>> nodes;
    double t0 = 0, tEnd = 1, acc = 1e-3; bool errCtl = true, everyStep = true, allowInterp = true;
    std::string integName; std::string tn;
    int stepsSeen = 0; double lastCommitT = NaN, hmax = 0, prevStepT = NaN, maxGap = 0, lastT = NaN;
    double hmaxSeen() const { return std::max(maxGap, 1e-12); }    // largest spacing between consecutive returned states
    double alpha = 1, Knum = 100, roundAmp = 0;
    // allowance for numerically integrated quantities: local error control gives global error ~ K*acc^alpha*(1+rho*T)
    // (alpha = global order / order of the error estimate; the constants of the C20 monitor)
    double numAllow(double t, double sc) const { return Knum * std::pow(acc, alpha) * (1 + 4 * (t - t0)) * sc; }
    Run(Ctx& c_, Rng& r_, long ci_) : c(c_), r(r_), ci(ci_), tn(Tr::name()) {}

    static VD toVD(const T& x) { VD v(N); for (int i = 0; i < N; ++i) v[i] = Tr::get(x, i); return v; }
    Sig randSig(bool allowSin, int maxDeg) {
        Sig sg(N);
        for (auto& q : sg) { int deg = r.integer(0, maxDeg); for (int i = 0; i <= deg; ++i) q.c[i] = r.sym(1.5) / (1 + i);
            if (allowSin && r.coin(0.6)) { int ns = r.integer(1, 2); for (int j = 0; j < ns; ++j) q.s.push_back({r.uni(0.3, 1.5), r.uni(1.0, 7.0), r.uni(0, 6.28)}); } }
        return sg;
    }
    std::string key(const char* chk, const Node<T>& n, const char* detail = nullptr) const {
        std::string k = std::string(chk) + ":" + (n.kind == K_DIFF ? (n.approx ? "Differentiate-approx" : "Differentiate-exact") : KNAME[n.kind]) + ":" + tn;
        if (detail) k += std::string(":") + detail; return k;
    }
    Json wit(const Node<T>& n, double t) const {
        Json w = Json::obj(); w.set("kind", KNAME[n.kind]).set("T", tn).set("t", t).set("integrator", integName).set("acc", acc).set("everyStep", everyStep).set("interp", allowInterp).set("steps", stepsSeen).set("depth", n.depth);
        Json ks = Json::arr(); for (int k : n.kids) ks.push(KNAME[nodes[k].kind]); w.set("operands", ks).set("value", vh::jvec(n.cur));
        return w;
    }

    // ---- build
    int addLeaf(int kind, Subsystem& sub) {
        Node<T> n; n.kind = kind; n.hasSig = true; n.sig.assign(N, Sig1());
        double v[3];
        switch (kind) {
        case K_CONST: { for (int i = 0; i < N; ++i) { v[i] = r.sym(2.0); n.sig[i].c[0] = v[i]; } n.m = typename Measure_<T>::Constant(sub, Tr::make(v)); break; }
        case K_ZERO: n.m = typename Measure_<T>::Zero(sub); break;
        case K_ONE: for (int i = 0; i < N; ++i) n.sig[i].c[0] = 1; n.m = typename Measure_<T>::One(sub); break;
        case K_VAR: { for (int i = 0; i < N; ++i) { v[i] = r.sym(2.0); n.sig[i].c[0] = v[i]; } n.m = typename Measure_<T>::Variable(sub, Stage::Position, Tr::make(v)); break; }
        case K_FN: { n.sig = randSig(true, 3); n.fnDerivs = r.integer(0, 3); n.m = FnMeasure<T>(sub, n.sig, n.fnDerivs, -1); break; }
        case K_Z: { // uses N of the linear z's
            int first = r.integer(0, sd.nz - 1 - N);
            for (int i = 0; i < N; ++i) { n.sig[i].c[1] = sd.c[first + i]; n.sig[i].c[0] = sd.z0[first + i] - sd.c[first + i] * t0; }
            n.fnDerivs = r.integer(0, 2); n.m = FnMeasure<T>(sub, n.sig, n.fnDerivs, first); break; }
        default: return addLeafReal(kind, sub, n);
        }
        nodes.push_back(n); return (int)nodes.size() - 1;
    }
    int addLeafReal(int kind, Subsystem& sub, Node<T>& n);   // Time, Sinusoid: Real only (specialized below)

    int addOp(int kind, Subsystem& sub, int a, int b = -1) {
        Node<T> n; n.kind = kind; n.kids.push_back(a); if (b >= 0) n.kids.push_back(b);
        n.depth = 1 + std::max(nodes[a].depth, b >= 0 ? nodes[b].depth : 0);
        n.numeric = nodes[a].numeric || (b >= 0 && nodes[b].numeric);
        const Node<T>& A = nodes[a];
        switch (kind) {
        case K_PLUS: case K_MINUS: { const Node<T>& B = nodes[b];
            if (kind == K_PLUS) n.m = typename Measure_<T>::Plus(sub, A.m, B.m); else n.m = typename Measure_<T>::Minus(sub, A.m, B.m);
            if (A.hasSig && B.hasSig) { n.hasSig = true; n.sig.resize(N); for (int i = 0; i < N; ++i) n.sig[i] = A.sig[i].plus(B.sig[i], kind == K_PLUS ? 1 : -1); } break; }
        case K_SCALE: n.fac = r.coin(0.2) ? -1.0 : r.sym(2.5); n.m = typename Measure_<T>::Scale(sub, n.fac, A.m);
            if (A.hasSig) { n.hasSig = true; n.sig.resize(N); for (int i = 0; i < N; ++i) n.sig[i] = A.sig[i].scaled(n.fac); } break;
        case K_INTEG: { const Node<T>& B = nodes[b];   // b = initial condition measure (constant)
            n.m = typename Measure_<T>::Integrate(sub, A.m, B.m); n.numeric = true;
            n.hasSig = true; n.sig.resize(N); for (int i = 0; i < N; ++i) n.sig[i] = A.sig[i].integ(t0, B.sig[i].eval(t0)); break; }
        case K_DIFF: { typename Measure_<T>::Differentiate d(sub, A.m); n.forceApprox = r.coin(0.25); if (n.forceApprox) d.setForceUseApproximation(true); n.m = d;
            if (A.hasSig) { n.hasTruth = true; n.truth.resize(N); for (int i = 0; i < N; ++i) n.truth[i] = A.sig[i].deriv(); } break; }
        case K_MIN: n.m = typename Measure_<T>::Minimum(sub, A.m); break;
        case K_MAX: n.m = typename Measure_<T>::Maximum(sub, A.m); break;
        case K_MINABS: n.m = typename Measure_<T>::MinAbs(sub, A.m); break;
        case K_MAXABS: n.m = typename Measure_<T>::MaxAbs(sub, A.m); break;
        case K_DELAY: n.tau = r.coin(0.15) ? r.uni(1.5, 3.0) * (tEnd - t0) / 4 : r.logUni(0.003, 0.5) * (tEnd - t0); n.m = typename Measure_<T>::Delay(sub, A.m, n.tau); break;
        }
        nodes.push_back(n); return (int)nodes.size() - 1;
    }

    void build(int focus) {
        Subsystem& sub = sys->updDefaultSubsystem();
        const bool real = (N == 1);
        std::vector<int> leafKinds = {K_CONST, K_VAR, K_FN, K_Z, K_FN, K_ZERO, K_ONE};
        if (real) { leafKinds.push_back(K_TIME); leafKinds.push_back(K_SINUS); leafKinds.push_back(K_SINUS); }
        int nl = r.integer(2, 4);
        if (focus < K_PLUS) addLeaf(focus, sub);
        while ((int)nodes.size() < nl) addLeaf(r.pick(leafKinds), sub);
        const int nops = r.integer(3, 8);
        std::vector<int> opKinds = {K_PLUS, K_MINUS, K_SCALE, K_INTEG, K_DIFF, K_MIN, K_MAX, K_MINABS, K_MAXABS, K_DELAY, K_INTEG, K_DIFF, K_DELAY};
        for (int q = 0; q < nops; ++q) {
            int kind = (q == 0 && focus >= K_PLUS) ? focus : r.pick(opKinds);
            // candidate operands
            std::vector<int> cand;
            for (int i = 0; i < (int)nodes.size(); ++i) { if (nodes[i].depth >= 4) continue; if (kind == K_INTEG && !nodes[i].hasSig) continue; cand.push_back(i); }
            if (cand.empty()) continue;
            // prefer recently created nodes so that depth grows
            int a = r.coin(0.6) ? cand[cand.size() - 1 - (size_t)r.integer(0, std::min<int>(2, (int)cand.size() - 1))] : r.pick(cand);
            if (kind == K_DIFF && !r.coin(0.12)) {      // mostly the numerically estimating mode (the other one cannot be realized, see probe below)
                std::vector<int> c0; for (int i : cand) { int k = nodes[i].kind; if (k == K_PLUS || k == K_MINUS || k == K_SCALE || k == K_DELAY || ((k == K_FN || k == K_Z) && nodes[i].fnDerivs == 0)) c0.push_back(i); }
                if (!c0.empty()) a = r.pick(c0);
            }
            int b = -1;
            if (kind == K_PLUS || kind == K_MINUS) { std::vector<int> cb; for (int i = 0; i < (int)nodes.size(); ++i) if (nodes[i].depth < 4) cb.push_back(i); b = r.pick(cb); }
            if (kind == K_INTEG) b = addLeaf(r.coin(0.8) ? K_CONST : K_ZERO, sub);
            addOp(kind, sub, a, b);
        }
    }

    // ---- per-state evaluation
    void process(const State& s, bool stepEnd, bool initial) {
        const double t = s.getTime();
        if (std::isfinite(lastT)) maxGap = std::max(maxGap, std::fabs(t - lastT)); lastT = t;
        if (c.args.verbose) fprintf(stderr, "returned t=%.17g stepEnd=%d initial=%d lastCommit=%.17g\n", t, (int)stepEnd, (int)initial, lastCommitT);
        sys->realize(s, Stage::Acceleration);
        const bool mirror = everyStep;       // the mirrors need every internal step end
        for (auto& n : nodes) {
            c.setPhase("getValue " + std::string(KNAME[n.kind]) + " " + tn + " " + integName);
            n.cur = toVD(n.m.getValue(s));
        }
        c.setPhase("judge " + tn + " " + integName);
        for (size_t ni = 0; ni < nodes.size(); ++ni) {
            Node<T>& n = nodes[ni];
            bool fin = true; for (double x : n.cur) fin &= std::isfinite(x);
            if (!c.require(key("finite", n), fin, [&] { return wit(n, t); })) continue;
            const Node<T>* A = n.kids.empty() ? nullptr : &nodes[n.kids[0]];
            const Node<T>* B = n.kids.size() < 2 ? nullptr : &nodes[n.kids[1]];
            auto maxabs = [](const VD& v) { double m = 0; for (double x : v) m = std::max(m, std::fabs(x)); return m; };
            auto cmp = [&](const char* chk, const VD& expect, double tol, const char* detail = nullptr) {
                double worst = 0; for (int i = 0; i < N; ++i) worst = std::max(worst, std::fabs(n.cur[i] - expect[i]));
                c.check(key(chk, n, detail), worst, tol, [&] { return wit(n, t).set("expected", vh::jvec(expect)).set("tol", tol); });
            };
            switch (n.kind) {
            case K_CONST: case K_ZERO: case K_ONE: case K_VAR: case K_TIME: case K_SINUS: {
                VD e(N); for (int i = 0; i < N; ++i) e[i] = n.sig[i].eval(t);
                double tol = (n.kind == K_SINUS) ? 8 * EPS * (std::fabs(n.sig[0].s[0].A) * (1 + n.sig[0].s[0].w * std::fabs(t))) : 0;
                cmp("value", e, tol);
                // derivatives supplied by the library
                for (int k = 1; k <= std::min(n.nd, 3); ++k) {
                    VD dv = toVD(n.m.getValue(s, k)); double worst = 0, sc = 0;
                    for (int i = 0; i < N; ++i) { double ee = n.sig[i].eval(t, k); worst = std::max(worst, std::fabs(dv[i] - ee)); sc = std::max(sc, std::fabs(ee)); }
                    c.check(key("derivative", n), worst, n.kind == K_SINUS ? 16 * EPS * (sc + 1) * (1 + n.sig[0].s[0].w * std::fabs(t)) * std::pow(n.sig[0].s[0].w, k) : 0, [&] { return wit(n, t).set("order", k).set("got", vh::jvec(dv)); });
                }
                break; }
            case K_FN: case K_Z: break;           // harness operands
            case K_PLUS: case K_MINUS: { VD e(N); for (int i = 0; i < N; ++i) e[i] = n.kind == K_PLUS ? A->cur[i] + B->cur[i] : A->cur[i] - B->cur[i]; cmp("value", e, 0); break; }
            case K_SCALE: { VD e(N); for (int i = 0; i < N; ++i) e[i] = n.fac * A->cur[i]; cmp("value", e, 0); break; }
            case K_INTEG: {
                VD e(N); double sc = 1; for (int i = 0; i < N; ++i) { e[i] = n.sig[i].eval(t); sc = std::max(sc, std::fabs(e[i])); }
                bool lin = !A->numeric; for (int i = 0; i < N; ++i) lin &= A->sig[i].isLinear() && A->sig[i].c[1] == 0;   // constant integrand: every method is exact
                if (initial) cmp("value", e, 4 * EPS * sc, "initial-condition");
                else if (lin) cmp("value", e, 1e-10 * sc * (1 + stepsSeen * 1e-3), "exact-class");
                else if (errCtl) cmp("value", e, numAllow(t, sc), "analytic-integral");
                if (n.nd >= 1) { VD dv = toVD(n.m.getValue(s, 1)); double worst = 0; for (int i = 0; i < N; ++i) worst = std::max(worst, std::fabs(dv[i] - A->cur[i]));
                    c.check(key("derivative", n), worst, 0, [&] { return wit(n, t).set("got", vh::jvec(dv)).set("integrand", vh::jvec(A->cur)); }); }
                break; }
            case K_DIFF: {
                if (!n.approx) { VD e = toVD(A->m.getValue(s, 1)); cmp("value", e, 0); break; }
                if (mirror) {
                    VD e(N); bool good;
                    if (t == n.t0s) { e = n.fd0; good = n.good0; }
                    else { for (int i = 0; i < N; ++i) { double fd = (A->cur[i] - n.f0[i]) / (t - n.t0s); if (n.good0) fd = 2.0 * fd - n.fd0[i]; e[i] = fd; } good = true; }
                    double sc = maxabs(e) + maxabs(A->cur) / std::max(t - n.t0s, 1e-300) * 4;
                    cmp("mirror", e, 16 * EPS * sc + 1e-300);
                    if (stepEnd && t != lastCommitT) { n.f0 = A->cur; n.fd0 = e; n.good0 = good; n.t0s = t; }
                    // loose tracking of the analytic derivative (documented as an approximation; error does not damp)
                    if (n.hasTruth && stepsSeen >= 3 && !A->numeric) {
                        double worst = 0, m2 = n.M2; for (int i = 0; i < N; ++i) worst = std::max(worst, std::fabs(n.cur[i] - n.truth[i].eval(t)));
                        // the estimator's error does not damp: first-order start error + accumulated rounding amplification sum(eps*|f|/h_k)
                        c.check(key("tracks-derivative", n), worst, 4 * m2 * std::max(hmax, 1e-12) * (1 + stepsSeen * 0.02) + (roundAmp + 16 * EPS / std::max(t - n.t0s, 1e-300)) * (1 + maxabs(A->cur) + std::fabs(t) * n.M1) + 1e-9, [&] { return wit(n, t).set("hmax", hmax).set("roundAmp", roundAmp); });
                    }
                }
                break; }
            case K_MIN: case K_MAX: case K_MINABS: case K_MAXABS: {
                const int mode = n.kind == K_MAX ? 0 : n.kind == K_MIN ? 1 : n.kind == K_MAXABS ? 2 : 3;
                auto keyOf = [&](double v) { return mode == 0 ? v : mode == 1 ? -v : mode == 2 ? std::fabs(v) : -std::fabs(v); };
                // (a) never more extreme than the analytic supremum over [t0,t]; always an attained operand value
                if (A->hasSig && (errCtl || !A->numeric)) {
                    double worst = 0, tol = 0;
                    // extend the running sampled supremum to [.., t] (8 samples per new stretch, slack M1*dt/2 per sample gap)
                    const double a0 = std::isfinite(n.supT) ? n.supT : t0; double gap = 0;
                    if (!std::isfinite(n.supT) || t > n.supT) { const int ns = 8; gap = (std::max(t, a0) - a0) / ns;
                        for (int i = 0; i < N; ++i) for (int q = 0; q <= ns; ++q) { double kq = keyOf(A->sig[i].eval(a0 + gap * q)); if (!std::isfinite(n.supT) && q == 0) n.supRun[i] = kq; else n.supRun[i] = std::max(n.supRun[i], kq); }
                        n.supT = std::max(t, a0); }
                    for (int i = 0; i < N; ++i) { double slack = n.M1 * hmaxSeen() / 8 / 2 + (A->numeric ? numAllow(t, 1 + std::fabs(n.cur[i])) : 0) + 1e-12;
                        // an interpolated state earlier than supT: compare against the (larger) supremum up to supT: still an upper bound
                        worst = std::max(worst, keyOf(n.cur[i]) - n.supRun[i] - slack); tol = std::max(tol, 1e-12 * (1 + std::fabs(n.supRun[i]))); }
                    c.check(key("within-analytic-range", n), worst, tol, [&] { return wit(n, t); });
                }
                // (b) at least as extreme as the operand now, and as every operand value at previously returned states
                //     (earlier internal step ends / earlier interpolated report states are keyed separately)
                { double w0 = 0, w1 = 0, w2 = 0; int i1 = 0, i2 = 0;
                  for (int i = 0; i < N; ++i) { w0 = std::max(w0, keyOf(A->cur[i]) - keyOf(n.cur[i]));
                      if (!n.seenStep.empty()) { double d = keyOf(n.seenStep[i]) - keyOf(n.cur[i]); if (d > w1) { w1 = d; i1 = i; } }
                      if (!n.seenInterp.empty()) { double d = keyOf(n.seenInterp[i]) - keyOf(n.cur[i]); if (d > w2) { w2 = d; i2 = i; } } }
                  c.check(key("covers-current-operand", n), w0, 0, [&] { return wit(n, t).set("operand", vh::jvec(A->cur)); });
                  c.check("covers-returned-points:Extreme:" + tn + ":earlier-step-end", w1, 0, [&] { return wit(n, t).set("earlier_t", n.seenStepT[i1]).set("earlier_operand", n.seenStep[i1]).set("element", i1); });
                  c.check("covers-returned-points:Extreme:" + tn + ":earlier-interpolated-state", w2, 0, [&] { return wit(n, t).set("earlier_t", n.seenInterpT[i2]).set("earlier_operand", n.seenInterp[i2]).set("element", i2).set("now_step_end", stepEnd); }); }
                // (c) mirror of the documented step-wise tracking
                double tExt = n.m.isEmptyHandle() ? NaN : Measure_<T>::Extreme::getAs(n.m).getTimeOfExtremeValue(s);
                if (mirror) {
                    VD e(N); bool any = false;
                    for (int i = 0; i < N; ++i) { bool nw = keyOf(A->cur[i]) > keyOf(n.E[i]); e[i] = nw ? A->cur[i] : n.E[i]; any |= nw; }
                    cmp("mirror", e, 0);
                    const double te = any ? t : n.Etime;
                    c.check(key("time-of-extreme", n), (std::isfinite(tExt) && std::isfinite(te)) ? std::fabs(tExt - te) : (tExt == te || (std::isnan(tExt) && std::isnan(te)) ? 0.0 : 1.0), 0,
                            [&] { return wit(n, t).set("reported", tExt).set("expected", te).set("new_extreme_now", any); });
                    if (stepEnd && t != lastCommitT && any) { n.E = e; n.Etime = t; }
                }
                c.require(key("time-of-extreme-in-range", n), std::isfinite(tExt) && tExt >= t0 && tExt <= t, [&] { return wit(n, t).set("reported", tExt).set("t0", t0); });
                { VD& sv = stepEnd ? n.seenStep : n.seenInterp; VD& st = stepEnd ? n.seenStepT : n.seenInterpT;
                  if (sv.empty()) { sv = A->cur; st.assign(N, t); } else for (int i = 0; i < N; ++i) if (keyOf(A->cur[i]) > keyOf(sv[i])) { sv[i] = A->cur[i]; st[i] = t; } }
                break; }
            case K_DELAY: {
                const double tD = t - n.tau;
                if (mirror) {
                    // the library's buffer holds the samples swapped in at the start of earlier steps: strictly earlier than now
                    VD btAll; std::vector<VD> bvAll;
                    if (!n.bt.empty() && n.bt.back() >= t && n.bt.size() > 1) { btAll.swap(n.bt); bvAll.swap(n.bv); n.bt.assign(btAll.begin(), btAll.end() - 1); n.bv.assign(bvAll.begin(), bvAll.end() - 1); }
                    VD e(N); int fl = -1; for (size_t i = 0; i < n.bt.size(); ++i) if (n.bt[i] >= tD) { fl = (int)i; break; }
                    const char* how; double bnd = -1;     // bound of |value - f(tD)| for analytic operands
                    auto M = [&](int k, double, double) { return k == 1 ? n.M1 : n.M2; };
                    if (fl > 0) { how = "interpolate"; double ta = n.bt[fl - 1], tb = n.bt[fl], fr = (tD - ta) / (tb - ta); for (int i = 0; i < N; ++i) e[i] = n.bv[fl - 1][i] + fr * (n.bv[fl][i] - n.bv[fl - 1][i]);
                        if (A->hasSig) bnd = M(2, ta, tb) * (tb - ta) * (tb - ta) / 8; }
                    else if (fl == 0) { how = "before-start"; e = n.bv[0]; bnd = 0; }
                    else if (n.bt.size() == 1) { how = "single-sample"; e = n.bv[0]; if (A->hasSig) bnd = M(1, n.bt[0], tD) * (tD - n.bt[0]); }
                    else { how = "extrapolate"; size_t z = n.bt.size(); double ta = n.bt[z - 2], tb = n.bt[z - 1], fr = (tD - ta) / (tb - ta); for (int i = 0; i < N; ++i) e[i] = n.bv[z - 2][i] + fr * (n.bv[z - 1][i] - n.bv[z - 2][i]);
                        if (A->hasSig) bnd = M(2, ta, tD) * (tD - ta) * (tD - tb) / 2; }
                    double sc = 0; for (auto& v : n.bv) sc = std::max(sc, maxabs(v));
                    cmp("mirror", e, 64 * EPS * (sc + 1) * (fl < 0 && n.bt.size() > 1 ? 1 + (tD - n.bt[n.bt.size() - 2]) / (n.bt.back() - n.bt[n.bt.size() - 2]) : 1), how);
                    c.cover("Delay:" + tn + ":" + how);
                    if (A->hasSig && bnd >= 0 && (errCtl || !A->numeric)) {
                        double worst = 0; const double tt = std::max(tD, t0);
                        for (int i = 0; i < N; ++i) worst = std::max(worst, std::fabs(n.cur[i] - A->sig[i].eval(tt)));
                        const double num = A->numeric ? 2 * numAllow(t, 1 + sc) : 0;
                        c.check(key("truth", n, how), worst, bnd * 1.01 + num + 256 * EPS * (sc + 1) * (1 + std::fabs(t)), [&] { return wit(n, t).set("tau", n.tau).set("how", how).set("bound", bnd); });
                    }
                    if (!btAll.empty()) { n.bt.swap(btAll); n.bv.swap(bvAll); }
                    if (stepEnd && t != lastCommitT) { n.bt.push_back(t); n.bv.push_back(A->cur); }
                } else if (A->hasSig && tD <= t0 && (errCtl || !A->numeric)) {
                    VD e(N); for (int i = 0; i < N; ++i) e[i] = A->sig[i].eval(t0);
                    cmp("truth", e, (A->numeric ? 2 * numAllow(t, 1 + maxabs(e)) : 0) + 64 * EPS * (maxabs(e) + 1), "before-start");
                }
                break; }
            }
        }
        if (stepEnd && t != lastCommitT) { if (std::isfinite(prevStepT)) { hmax = std::max(hmax, t - prevStepT); roundAmp += 16 * EPS / std::max(t - prevStepT, 1e-300); } prevStepT = t; lastCommitT = t; ++stepsSeen; }
    }

    // some measure consumes an exact-mode Differentiate of Constant/Zero/One/Time/Variable (whose derivative stage is Stage::Empty)
    bool emptyStageConsumer() const {
        for (auto& n : nodes) for (int k : n.kids) { const Node<T>& o = nodes[k];
            if (o.kind == K_DIFF && !o.forceApprox && o.m.getDependsOnStage(0) == Stage::Empty) return true; }
        return false;
    }
    // a numerically estimating Differentiate whose operand is available below Instance stage (Constant, Zero, One, Variable):
    // initializing its discrete variable invalidates Topology/Model stage of the state being initialized
    bool approxDiffOfLowStageOperand() const {
        for (auto& n : nodes) if (n.kind == K_DIFF && n.approx && nodes[n.kids[0]].m.getDependsOnStage(0) < Stage::Instance) return true;
        return false;
    }
    // ---- whole case
    void run(int focus) {
        // system
        t0 = r.coin(0.5) ? 0.0 : r.uni(0.1, 1.0); tEnd = t0 + r.uni(0.6, 2.5);
        sd.nz = 3 + N + 1; sd.z0.resize(sd.nz); sd.c.resize(sd.nz);
        for (int i = 0; i < sd.nz; ++i) { sd.z0[i] = r.sym(1.5); sd.c[i] = r.sym(1.5); }
        sd.pa = r.uni(0.5, 3.0); sd.pw = r.uni(2.0, 12.0); sd.t0 = t0;
        sys.reset(new MSystem(sd));
        build(focus);
        c.setPhase("realizeTopology " + tn);
        State s;
        try { s = sys->realizeTopology(); sys->realizeModel(s); }
        catch (const std::exception& e) {
            // a Differentiate of a measure with constant derivative reports depends-on stage Empty; any measure built on it cannot allocate its cache entry
            if (std::string(e.what()).find("stage was Empty") != std::string::npos && emptyStageConsumer()) {
                c.viol("depends-on-stage-Empty:consumer-of-Differentiate-of-constant-rate-measure:" + tn + ":realizeTopology-throws", Json::obj().set("what", vh::firstLine(e.what(), 300))); return; }
            throw;
        }
        s.setTime(t0);
        // what the library says about derivatives / approximation
        for (auto& n : nodes) {
            n.nd = n.m.getNumTimeDerivatives();
            if (n.kind == K_DIFF) { n.approx = Measure_<T>::Differentiate::getAs(n.m).isUsingApproximation();
                const bool expectApprox = n.forceApprox || nodes[n.kids[0]].nd == 0;
                c.require(key("uses-approximation-as-documented", n), n.approx == expectApprox, [&] { return wit(n, t0).set("reported", n.approx).set("operand_derivs", nodes[n.kids[0]].nd); });
                if (!n.approx && n.hasTruth) { n.hasSig = true; n.sig = n.truth; }
            }
            if (n.kind == K_INTEG) { int od = nodes[n.kids[0]].nd; c.require(key("num-derivatives", n), n.nd == (od == std::numeric_limits<int>::max() ? od : od + 1), [&] { return wit(n, t0).set("reported", n.nd).set("operand", od); }); }
            if (n.kind == K_DIFF && !n.approx) c.require(key("num-derivatives", n), n.nd == nodes[n.kids[0]].nd - (nodes[n.kids[0]].nd == std::numeric_limits<int>::max() ? 0 : 1) || nodes[n.kids[0]].nd == std::numeric_limits<int>::max(), [&] { return wit(n, t0).set("reported", n.nd); });
            if (!n.kids.empty() && nodes[n.kids[0]].hasSig) for (int i = 0; i < N; ++i) { n.M1 = std::max(n.M1, nodes[n.kids[0]].sig[i].maxAbs(1, t0 - 1e-9, tEnd)); n.M2 = std::max(n.M2, nodes[n.kids[0]].sig[i].maxAbs(2, t0 - 1e-9, tEnd)); }
            c.cover(std::string(KNAME[n.kind]) + ":" + tn + ":" + (n.kids.empty() ? "leaf" : KNAME[nodes[n.kids[0]].kind]) + ":d" + std::to_string(n.depth));
        }
        // A Differentiate measure whose operand supplies its derivative has no discrete variable, yet its
        // realizeMeasureAccelerationVirtual() unconditionally looks one up (wild read): probe in a forked child; if the
        // child dies the case cannot be run at all.
        for (auto& n : nodes) if (n.kind == K_DIFF && !n.approx) {
            c.setPhase("probe realize(Acceleration) with exact-mode Differentiate " + tn);
            fflush(stdout); fflush(stderr);
            pid_t pid = fork();
            if (pid == 0) { vh::g_crashLine[0] = 0; signal(SIGSEGV, SIG_DFL); signal(SIGBUS, SIG_DFL); signal(SIGABRT, SIG_DFL);
                            try { sys->realize(s, Stage::Acceleration); } catch (...) { _exit(3); } _exit(0); }
            int st = 0; if (pid > 0) waitpid(pid, &st, 0);
            c.obs("probe:Differentiate-exact:" + std::string(pid > 0 && WIFEXITED(st) && WEXITSTATUS(st) == 0 ? "survived" : "died"));
            if (pid > 0 && !(WIFEXITED(st) && WEXITSTATUS(st) == 0)) {
                c.viol(key("realize-acceleration-crashes", n), wit(n, t0).set("wait_status", st).set("signal", WIFSIGNALED(st) ? WTERMSIG(st) : 0)
                       .set("note", "System::realize(state, Stage::Acceleration) in a forked child"));
                return;
            }
            break;
        }
        // integrator
        static const char* INAMES[] = {"RungeKuttaMerson", "RungeKuttaFeldberg", "RungeKutta3", "RungeKutta2", "Verlet", "ExplicitEuler", "SemiExplicitEuler2", "CPodes", "SemiExplicitEuler-fixed", "RungeKuttaMerson-fixed"};
        const int ik = (int)((ci / 2) % 10); integName = INAMES[ik];
        static const double accs[3] = {1e-3, 1e-5, 1e-7}; acc = accs[r.integer(0, 2)];
        if (ik == 5 || ik == 6) acc = 1e-2; else if (ik == 3 || ik == 2 || ik == 4) acc = std::max(acc, 1e-4);      // low-order methods: keep the step count small
        std::unique_ptr<Integrator> integ;
        const double hfix = (tEnd - t0) / r.integer(30, 120);
        switch (ik) {
        case 0: integ.reset(new RungeKuttaMersonIntegrator(*sys)); break; case 1: integ.reset(new RungeKuttaFeldbergIntegrator(*sys)); break;
        case 2: integ.reset(new RungeKutta3Integrator(*sys)); break; case 3: integ.reset(new RungeKutta2Integrator(*sys)); break;
        case 4: integ.reset(new VerletIntegrator(*sys)); break; case 5: integ.reset(new ExplicitEulerIntegrator(*sys)); break;
        case 6: integ.reset(new SemiExplicitEuler2Integrator(*sys)); break; case 7: integ.reset(new CPodesIntegrator(*sys)); break;
        case 8: integ.reset(new SemiExplicitEulerIntegrator(*sys, hfix)); break; default: integ.reset(new RungeKuttaMersonIntegrator(*sys)); integ->setFixedStepSize(hfix); break;
        }
        errCtl = ik <= 7; if (errCtl) integ->setAccuracy(acc);
        { static const double al[10] = {0.8, 0.8, 1, 1, 2.0 / 3, 0.5, 0.5, 1, 1, 1}; alpha = al[ik]; Knum = ik == 7 ? 1000 : 100; }
        everyStep = r.coin(0.7); allowInterp = !r.coin(0.2);
        integ->setReturnEveryInternalStep(everyStep); integ->setAllowInterpolation(allowInterp);
        if (r.coin(0.3)) integ->setMaximumStepSize((tEnd - t0) / r.integer(5, 30));
        integ->setFinalTime(tEnd);
        const int gridK = r.integer(0, 3); const double dtRep = gridK == 0 ? (tEnd - t0) / 7.3 : gridK == 1 ? (tEnd - t0) / 23.7 : gridK == 2 ? (tEnd - t0) / 61.0 : (tEnd - t0) * 2;
        c.cover("run:" + integName + ":" + tn + (everyStep ? ":every-step" : ":reports-only") + (allowInterp ? ":interp" : ":no-interp") + ":grid" + std::to_string(gridK));
        c.setPhase("initialize " + integName + " " + tn);
        try { integ->initialize(s); }
        catch (const std::exception& e) {
            const std::string w = e.what();
            if (w.find("current stage was") != std::string::npos && approxDiffOfLowStageOperand()) {
                c.viol("differentiate-approx-of-topology-or-model-stage-operand:" + tn + ":initialize-throws", Json::obj().set("what", vh::firstLine(w, 300))); return; }
            if (w.find("current stage was Empty") != std::string::npos && emptyStageConsumer()) {
                c.viol("depends-on-stage-Empty:consumer-of-Differentiate-of-constant-rate-measure:" + tn + ":initialize-throws", Json::obj().set("what", vh::firstLine(w, 300))); return; }
            throw;
        }
        // mirrors start from the documented initial conditions
        {
            const State& s0 = integ->getState(); sys->realize(s0, Stage::Acceleration);
            for (auto& n : nodes) { n.cur = toVD(n.m.getValue(s0)); }
            for (auto& n : nodes) { if (n.kids.empty()) continue; const VD& a = toVD(nodes[n.kids[0]].m.getValue(s0));
                if (isExtreme(n.kind)) { n.E = a; n.Etime = t0; }
                if (n.kind == K_DIFF) { n.f0 = a; n.fd0.assign(N, 0.0); n.good0 = false; n.t0s = t0; }
                if (n.kind == K_DELAY) { n.bt.assign(1, t0); n.bv.assign(1, a); } }
            lastCommitT = t0; prevStepT = t0; stepsSeen = 1;      // the initial state is the first committed sample
        }
        process(integ->getState(), true, true);
        long guard = 0; double tRep = t0 + dtRep; bool over = false;
        while (!over && ++guard < 200000) {
            c.setPhase("stepTo " + integName + " " + tn);
            Integrator::SuccessfulStepStatus st = integ->stepTo(std::min(tRep, tEnd));
            c.obs(std::string("status:") + Integrator::getSuccessfulStepStatusString(st).c_str());
            if (c.args.verbose) fprintf(stderr, "stepTo(%.17g) -> %s t=%.17g adv=%.17g interp=%d\n", std::min(tRep, tEnd), Integrator::getSuccessfulStepStatusString(st).c_str(), integ->getTime(), integ->getAdvancedTime(), (int)integ->isStateInterpolated());
            const State& sr = integ->getState();
            const bool interp = integ->isStateInterpolated();
            const bool stepEnd = !interp && sr.getTime() == integ->getAdvancedTime();
            switch (st) {
            case Integrator::ReachedReportTime: process(sr, stepEnd, false); tRep += dtRep; if (sr.getTime() >= tEnd) { /* next stepTo returns EndOfSimulation */ } break;
            case Integrator::TimeHasAdvanced: case Integrator::ReachedStepLimit: case Integrator::StartOfContinuousInterval: process(sr, stepEnd, false); break;
            case Integrator::EndOfSimulation: over = true; break;
            default: c.viol("unexpected-status:" + integName, Json::obj().set("status", (int)st)); over = true; break;
            }
        }
        if (!over) c.viol("runaway-step-loop:" + integName, Json::obj().set("t", integ->getTime()));
        c.obs("steps:" + integName, stepsSeen);
        // Integrate::setValue must be visible through getValue (documented: "Set the current value of this measure")
        State sf = integ->getAdvancedState();
        for (auto& n : nodes) if (n.kind == K_INTEG) {
            sys->realize(sf, Stage::Acceleration); (void)n.m.getValue(sf);
            double v[3]; for (int i = 0; i < N; ++i) v[i] = r.sym(3.0);
            c.setPhase("Integrate::setValue " + tn);
            Measure_<T>::Integrate::getAs(n.m).setValue(sf, Tr::make(v));
            sys->realize(sf, Stage::Acceleration);
            VD got = toVD(n.m.getValue(sf)); double worst = 0; for (int i = 0; i < N; ++i) worst = std::max(worst, std::fabs(got[i] - v[i]));
            c.check(key("setValue-visible", n), worst, 0, [&] { return Json::obj().set("set", vh::jvec(VD(v, v + N))).set("got", vh::jvec(got)).set("T", tn); });
            break;
        }
        if (c.wantSample()) { Json j = Json::obj(); j.set("T", tn).set("integrator", integName).set("acc", acc).set("everyStep", everyStep).set("interp", allowInterp).set("steps", stepsSeen).set("t0", t0).set("tEnd", tEnd);
            Json a = Json::arr(); for (auto& n : nodes) { Json q = Json::obj(); q.set("kind", KNAME[n.kind]); Json ks = Json::arr(); for (int k : n.kids) ks.push(k); q.set("operands", ks); a.push(q); } j.set("measures", a); c.sample(j); }
    }
};

template <> int Run<Real>::addLeafReal(int kind, Subsystem& sub, Node<Real>& n) {
    if (kind == K_TIME) { n.sig[0].c[1] = 1; n.m = Measure_<Real>::Time(sub); }
    else { double A = r.uni(0.3, 2.0), w = r.uni(0.5, 8.0), p = r.coin(0.3) ? 0.0 : r.uni(0, 6.28); n.sig[0].s.push_back({A, w, p});
           n.m = p == 0.0 && r.coin(0.5) ? Measure_<Real>::Sinusoid(sub, A, w) : Measure_<Real>::Sinusoid(sub, A, w, p); }
    nodes.push_back(n); return (int)nodes.size() - 1;
}
template <> int Run<Vec3>::addLeafReal(int, Subsystem& sub, Node<Vec3>&) { return addLeaf(K_FN, sub); }

int main(int argc, char** argv) {
    Args a = vh::parseArgs(argc, argv);
    Ctx c(a);
    if (a.prop != "C23") { fprintf(stderr, "mon_measure: unknown property %s\n", a.prop.c_str()); return 2; }
    const long onlyFocus = a.getInt("focus", -1), onlyT = a.getInt("type", -1);
    return vh::runCases(c, [&](long i, Rng& r) {
        const int focus = onlyFocus >= 0 ? (int)onlyFocus : (int)((i / 20) % K_NKINDS);
        const bool vec = onlyT >= 0 ? onlyT == 1 : (i % 2) == 1;
        try {
            if (vec) { Run<Vec3> R(c, r, i); R.run(focus == K_TIME || focus == K_SINUS ? K_FN : focus); }
            else { Run<Real> R(c, r, i); R.run(focus); }
        } catch (const std::exception& e) {
            c.viol("exception:" + vh::normMsg(e.what()), Json::obj().set("what", vh::firstLine(e.what(), 500)).set("phase", c.phase));
        }
    });
}
