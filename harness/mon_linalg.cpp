// mon_linalg.cpp — C24 "Matrix factorizations solve what they claim"
//
// Drives FactorLU / FactorLLT / FactorQTZ / FactorSVD / Eigen of the real library over seeded
// generated matrices and checks every answer with harness-side dense arithmetic in
// (complex) long double that does not use LAPACK.
//
// Matrices are generated as U*Sigma*V^H with chosen Sigma, so rank, singular values, range and
// null space are known by construction; the matrix handed to the library is the rounding of
// that product to the element type T, and *that rounded matrix* is what the oracles use.
//
// Preconditions kept by the generator (a case outside them is never judged):
//  * LU / LLT / Eigen get square matrices only; LLT gets Hermitian positive definite input
//    whose condition number is far below 1/eps_T (LLT has no way to report failure).
//  * LU/LLT/QTZ reject zero-dimension input by a documented API exception (counted);
//    SVD accepts it. Eigen of 0x0 is called (the library's own test does).
//  * rank is only judged when no singular value lies within a factor DB of the cut rcond*s1.
//  * right-hand sides have the row count of the matrix and the element type of the matrix
//    (a few deliberate type mismatches check that the documented exception comes).
//
// Key format: <class>:<factorization>.<operation>:<element type>[:<detail>]; shape, rank class,
// view kind, sizes go to the witness (one defect = one key).
#include "SimTKmath.h"
#include "vh.h"
#include <complex>
#include <memory>
#include <type_traits>
#include <sys/wait.h>
#include <sys/mman.h>
#include <ucontext.h>

using namespace SimTK;
using vh::Json;

typedef long double LD;
typedef std::complex<LD> LC;

// ------------------------------------------------------------------ dense reference arithmetic
struct LM {                       // column-major complex long double matrix
    int m = 0, n = 0; std::vector<LC> a;
    LM() {}
    LM(int m_, int n_) : m(m_), n(n_), a((size_t)m_ * n_, LC(0)) {}
    LC& operator()(int i, int j) { return a[(size_t)j * m + i]; }
    const LC& operator()(int i, int j) const { return a[(size_t)j * m + i]; }
};
static inline LC cmul(const LC& x, const LC& y) {   // plain formula (no inf/nan fix-up calls)
    return LC(x.real() * y.real() - x.imag() * y.imag(), x.real() * y.imag() + x.imag() * y.real());
}
static inline LC cconj(const LC& x) { return LC(x.real(), -x.imag()); }
static inline LD cabs2(const LC& x) { return x.real() * x.real() + x.imag() * x.imag(); }
static LM mul(const LM& A, const LM& B) {
    LM C(A.m, B.n);
    for (int j = 0; j < B.n; ++j) for (int k = 0; k < A.n; ++k) { LC b = B(k, j); if (b == LC(0)) continue;
        for (int i = 0; i < A.m; ++i) C(i, j) += cmul(A(i, k), b); }
    return C;
}
static LM mulH(const LM& A, const LM& B) {           // A^H * B
    LM C(A.n, B.n);
    for (int j = 0; j < B.n; ++j) for (int i = 0; i < A.n; ++i) { LC s(0);
        for (int k = 0; k < A.m; ++k) s += cmul(cconj(A(k, i)), B(k, j)); C(i, j) = s; }
    return C;
}
static LM herm(const LM& A) { LM H(A.n, A.m); for (int i = 0; i < A.m; ++i) for (int j = 0; j < A.n; ++j) H(j, i) = cconj(A(i, j)); return H; }
static LM sub(const LM& A, const LM& B) { LM C(A.m, A.n); for (size_t i = 0; i < C.a.size(); ++i) C.a[i] = A.a[i] - B.a[i]; return C; }
static LM eye(int n) { LM I(n, n); for (int i = 0; i < n; ++i) I(i, i) = LC(1); return I; }
static LD fro(const LM& A) { LD s = 0; for (auto& z : A.a) s += cabs2(z); return std::sqrt(s); }
static LM col(const LM& A, int j) { LM c(A.m, 1); for (int i = 0; i < A.m; ++i) c(i, 0) = A(i, j); return c; }
static LM cols(const LM& A, int j0, int j1) { LM c(A.m, std::max(0, j1 - j0)); for (int j = j0; j < j1; ++j) for (int i = 0; i < A.m; ++i) c(i, j - j0) = A(i, j); return c; }
static bool allFinite(const LM& A) { for (auto& z : A.a) if (!std::isfinite((double)z.real()) || !std::isfinite((double)z.imag())) return false; return true; }
static LM scaled(const LM& A, LD s) { LM C = A; for (auto& z : C.a) z *= s; return C; }

// ------------------------------------------------------------------ element type traits
template <class T> struct ET;
template <> struct ET<float>  { typedef float R;  static constexpr bool cplx = false; static const char* nm() { return "f"; } };
template <> struct ET<double> { typedef double R; static constexpr bool cplx = false; static const char* nm() { return "d"; } };
template <> struct ET<std::complex<float> >  { typedef float R;  static constexpr bool cplx = true; static const char* nm() { return "cf"; } };
template <> struct ET<std::complex<double> > { typedef double R; static constexpr bool cplx = true; static const char* nm() { return "cd"; } };
template <class T> LD epsOf() { return (LD)std::numeric_limits<typename ET<T>::R>::epsilon(); }
template <class T> T fromLC(const LC& z) {
    typedef typename ET<T>::R R;
    if constexpr (ET<T>::cplx) return T((R)z.real(), (R)z.imag()); else return (T)z.real();
}
template <class T> LC toLC(const T& v) {
    if constexpr (ET<T>::cplx) return LC((LD)v.real(), (LD)v.imag()); else return LC((LD)v, 0);
}
template <class T> LM roundTo(const LM& A) { LM B(A.m, A.n); for (size_t i = 0; i < A.a.size(); ++i) B.a[i] = toLC<T>(fromLC<T>(A.a[i])); return B; }
template <class T> LM fromSimTK(const Matrix_<T>& X) { LM A(X.nrow(), X.ncol()); for (int j = 0; j < A.n; ++j) for (int i = 0; i < A.m; ++i) A(i, j) = toLC<T>(X(i, j)); return A; }
template <class T> LM fromSimTK(const Vector_<T>& x) { LM A(x.size(), 1); for (int i = 0; i < A.m; ++i) A(i, 0) = toLC<T>(x[i]); return A; }
template <class T> Matrix_<T> toMatrix(const LM& A) { Matrix_<T> X(A.m, A.n); for (int j = 0; j < A.n; ++j) for (int i = 0; i < A.m; ++i) X(i, j) = fromLC<T>(A(i, j)); return X; }
template <class T> Vector_<T> toVector(const LM& A) { Vector_<T> x(A.m); for (int i = 0; i < A.m; ++i) x[i] = fromLC<T>(A(i, 0)); return x; }

// ------------------------------------------------------------------ generators
static LC gauss(vh::Rng& r, bool cplx) { return cplx ? LC(r.normal(), r.normal()) : LC(r.normal(), 0); }
static LM randomUnitary(int n, bool cplx, vh::Rng& r) {   // modified Gram-Schmidt, two passes
    LM Q(n, n);
    for (int j = 0; j < n; ++j) {
        for (int attempt = 0; attempt < 20; ++attempt) {
            std::vector<LC> v(n); for (auto& z : v) z = gauss(r, cplx);
            LD n0 = 0; for (auto& z : v) n0 += cabs2(z); n0 = std::sqrt(n0);
            for (int pass = 0; pass < 2; ++pass)
                for (int k = 0; k < j; ++k) { LC s(0); for (int i = 0; i < n; ++i) s += cmul(cconj(Q(i, k)), v[i]);
                    for (int i = 0; i < n; ++i) v[i] -= cmul(s, Q(i, k)); }
            LD nn = 0; for (auto& z : v) nn += cabs2(z); nn = std::sqrt(nn);
            if (nn < 1e-3L * n0) continue;            // nearly dependent draw: try again
            for (int i = 0; i < n; ++i) Q(i, j) = v[i] / nn;
            break;
        }
    }
    return Q;
}
struct Truth {                    // what is known by construction about the generated matrix
    int m = 0, n = 0, k = 0;
    LM U, V;                      // full unitary factors (m x m, n x n)
    std::vector<LD> sig;          // k constructed singular values, descending
};
static LM assemble(const Truth& t) {                  // U * Sigma * V^H
    LM US(t.m, t.k);
    for (int j = 0; j < t.k; ++j) for (int i = 0; i < t.m; ++i) US(i, j) = t.U(i, j) * t.sig[j];
    LM Vk = cols(t.V, 0, t.k);
    return mul(US, herm(Vk));
}
static Truth makeTruth(int m, int n, bool cplx, vh::Rng& r) {
    Truth t; t.m = m; t.n = n; t.k = std::min(m, n);
    t.U = randomUnitary(m, cplx, r); t.V = randomUnitary(n, cplx, r);
    t.sig.assign(t.k, 0);
    return t;
}
// k singular values, the first r log-uniform in [s1/kappa, s1] (both ends hit), the rest 'tail'
static void fillSigma(std::vector<LD>& s, int r, LD s1, LD kappa, LD tail, vh::Rng& rng) {
    int k = (int)s.size();
    for (int i = 0; i < k; ++i) {
        if (i >= r) { s[i] = tail; continue; }
        if (i == 0) s[i] = s1; else if (i == r - 1) s[i] = s1 / kappa;
        else s[i] = s1 * std::exp(-(LD)rng.uni() * std::log(kappa));
    }
    std::sort(s.begin(), s.begin() + r, [](LD a, LD b) { return a > b; });
}
static int pickSize(vh::Rng& r, bool allowZero) {
    double u = r.uni();
    if (u < 0.03) return allowZero ? 0 : 1;
    if (u < 0.09) return 1;
    if (u < 0.45) return r.integer(2, 6);
    if (u < 0.80) return r.integer(7, 20);
    return r.integer(21, 40);
}
static LD pickScale(vh::Rng& r, bool isFloat) {
    double u = r.uni();
    if (u < 0.70) return 1;
    if (u < 0.85) return (LD)r.logUni(1e-9, 1e-3);
    return (LD)r.logUni(1e2, isFloat ? 1e6 : 1e9);
}

// ------------------------------------------------------------------ per-case context
struct Case {
    vh::Ctx& c; vh::Rng& r;
    std::string fact, et, shape, rankCls, view, mode;
    int m = 0, n = 0; long idx = 0;
    Json desc() const {
        return Json::obj().set("fact", fact).set("T", et).set("m", m).set("n", n).set("shape", shape)
            .set("rank_class", rankCls).set("view", view).set("mode", mode);
    }
    std::string key(const std::string& cls, const std::string& op, const std::string& detail = "") const {
        return cls + ":" + fact + "." + op + ":" + et + (detail.empty() ? "" : ":" + detail);
    }
};
// c.check plus, with --verbose, a note on stderr for every comparison that uses more than 3 % of its tolerance
static bool chk(Case& cs, const std::string& key, double resid, double tol, const std::function<Json()>& w) {
    if (cs.c.args.verbose && resid > 0.03 * tol)
        fprintf(stderr, "[margin] case %ld %s ratio %.3g resid %.3g tol %.3g %s\n", cs.idx, key.c_str(), tol > 0 ? resid / tol : 0.0, resid, tol, w().dump().c_str());
    return cs.c.check(key, resid, tol, w);
}
static std::string excDetail(const std::string& what) {   // stable short text from a SimTK exception
    std::string s = what;
    size_t p = s.find("\n  ");
    if (p != std::string::npos) s = s.substr(p + 3);
    s = vh::firstLine(s, 200);
    std::string o; bool h = false;
    for (char ch : s) { if (ch >= '0' && ch <= '9') { if (!h) o += '#'; h = true; } else { o += (ch == ':' ? ';' : ch); h = false; } }
    if (o.size() > 64) o.resize(64);
    while (!o.empty() && o.back() == ' ') o.pop_back();
    return o;
}
// run a library call; an exception is a violation unless 'expected' says it is documented
template <class F> static bool guard(Case& cs, const std::string& op, F&& f, const std::string& detail = "") {
    cs.c.setPhase(cs.fact + "." + op + " " + cs.et + " " + std::to_string(cs.m) + "x" + std::to_string(cs.n) + " " + cs.view + " " + cs.mode);
    try { f(); return true; }
    catch (const std::exception& e) {
        cs.c.obs("exception:" + cs.fact + "." + op);
        cs.c.viol(cs.key("exception", op, (detail.empty() ? "" : detail + ";") + excDetail(e.what())),
                  cs.desc().set("what", vh::firstLine(e.what(), 400)));
        return false;
    }
}
// run a call that must throw a std::exception (documented rejection of an illegal use)
template <class F> static void mustThrow(Case& cs, const std::string& op, F&& f) {
    cs.c.setPhase(cs.fact + "." + op + " (must throw)");
    bool threw = false;
    try { f(); } catch (const std::exception&) { threw = true; }
    cs.c.obs("documented-exception:" + cs.fact + "." + op, threw ? 1 : 0);
    cs.c.require(cs.key("no-exception", op), threw, [&] { return cs.desc(); });
}
// Run a probe that is known to be able to kill the process in a forked child so that the worker
// survives: returns 0 (returned, f said fine), 1 (exception), 2 (f said wrong), -signal (child died;
// under ASan the child's report is written to the worker's sanitizer log and is decisive too).
template <class F> static int isolated(F&& f) {
    fflush(stdout); fflush(stderr);
    pid_t p = fork();
    if (p < 0) return 3;
    if (p == 0) { int rc = 0; try { rc = f() ? 0 : 2; } catch (const std::exception&) { rc = 1; } _exit(rc); }
    int st = 0; waitpid(p, &st, 0);
    if (WIFSIGNALED(st)) return -WTERMSIG(st);
    return WEXITSTATUS(st);
}
static bool finiteOrViol(Case& cs, const std::string& op, const LM& X) {
    if (allFinite(X)) return true;
    cs.c.viol(cs.key("nonfinite", op), cs.desc());
    return false;
}

// ------------------------------------------------------------------ views: how the matrix reaches the library
enum ViewKind { V_PLAIN = 0, V_NEG, V_LDA, V_HERM, V_NEGHERM, V_COUNT };
static const char* viewName(int v, bool cplx) {
    switch (v) { case V_PLAIN: return "plain"; case V_NEG: return "negated"; case V_LDA: return "lda-view";
                 case V_HERM: return cplx ? "herm-conjugate" : "transposed-copy";
                 default: return cplx ? "negated-herm-conjugate" : "negated-transposed-copy"; }
}
// Calls f(const Matrix_<E>&) with a SimTK matrix whose *logical* value is Mt, stored according to vk.
template <class T, class F> static void withView(const LM& Mt, int vk, F&& f) {
    typedef typename ET<T>::R R;
    const int m = Mt.m, n = Mt.n;
    if (vk == V_LDA && (m == 0 || n == 0)) vk = V_PLAIN;
    switch (vk) {
    case V_PLAIN: { Matrix_<T> S = toMatrix<T>(Mt); f(static_cast<const Matrix_<T>&>(S)); break; }
    case V_NEG:   { Matrix_<T> S = toMatrix<T>(scaled(Mt, -1)); f(S.negate()); break; }
    case V_LDA:   {
        const int ld = m + 3;
        std::vector<T> buf((size_t)ld * n, fromLC<T>(LC(777, 0)));    // padding rows hold a sentinel
        for (int j = 0; j < n; ++j) for (int i = 0; i < m; ++i) buf[(size_t)j * ld + i] = fromLC<T>(Mt(i, j));
        Matrix_<T> S(m, n, ld, buf.data());
        f(static_cast<const Matrix_<T>&>(S)); break; }
    case V_HERM:  {
        Matrix_<T> S = toMatrix<T>(herm(Mt));
        if constexpr (ET<T>::cplx) { Matrix_<conjugate<R> > H(~S); f(static_cast<const Matrix_<conjugate<R> >&>(H)); }
        else { Matrix_<T> Tm(~S); f(static_cast<const Matrix_<T>&>(Tm)); }
        break; }
    default:      {
        Matrix_<T> S = toMatrix<T>(scaled(herm(Mt), -1));
        if constexpr (ET<T>::cplx) { Matrix_<conjugate<R> > H(~S); f(H.negate()); }
        else { Matrix_<T> Tm(~S); f(Tm.negate()); }
        break; }
    }
}

// ------------------------------------------------------------------ how the factorization object is obtained
enum Mode { M_CTOR = 0, M_FACTOR, M_REFACTOR, M_COPY, M_ASSIGN, M_COUNT };
static const char* modeName(int m) { static const char* n[] = {"ctor", "factor", "refactor", "copy-ctor", "copy-assign"}; return n[m]; }
template <class F> struct HasRcond { static constexpr bool v = std::is_same<F, FactorQTZ>::value || std::is_same<F, FactorSVD>::value; };

// a small well-conditioned decoy of a *different* element type and shape, factored first in the
// refactor / assign modes so that stale state of the old factorization would show
template <class F, class T> static void factorDecoy(F& f) {
    typedef typename std::conditional<std::is_same<T, double>::value, float, double>::type D;   // real: complex QTZ solves always throw
    Matrix_<D> d(3, 3); d = D(0);
    d(0, 0) = D(4); d(1, 1) = D(3); d(2, 2) = D(5); d(0, 1) = d(1, 0) = D(1); d(1, 2) = d(2, 1) = D(0.5);
    f.factor(d);
    Vector_<D> b(3), x; b = D(1);
    f.solve(b, x);
}
template <class F, class T, class E>
static std::unique_ptr<F> makeFactor(const Matrix_<E>& mat, int mode, bool useRc, typename ET<T>::R rc) {
    auto build = [&]() -> std::unique_ptr<F> {
        if constexpr (HasRcond<F>::v) { if (useRc) return std::unique_ptr<F>(new F(mat, rc)); }
        return std::unique_ptr<F>(new F(mat));
    };
    auto refac = [&](F& f) {
        if constexpr (HasRcond<F>::v) { if (useRc) { f.factor(mat, rc); return; } }
        f.factor(mat);
    };
    switch (mode) {
    case M_CTOR: return build();
    case M_FACTOR: { std::unique_ptr<F> f(new F()); refac(*f); return f; }
    case M_REFACTOR: { std::unique_ptr<F> f(new F()); factorDecoy<F, T>(*f); refac(*f); return f; }
    case M_COPY: { std::unique_ptr<F> g = build(); std::unique_ptr<F> f(new F(*g)); g.reset(); return f; }
    default: { std::unique_ptr<F> f(new F()); factorDecoy<F, T>(*f); std::unique_ptr<F> g = build(); *f = *g; g.reset(); return f; }
    }
}

// ------------------------------------------------------------------ shared oracles
static const LD C_RES = 8;      // backward-error constant: tolerance = C_RES*(dim+10)*eps*(|A||x|+|b|)   (LU, LLT)
static const LD C_ORT = 320;    // same for the orthogonal-transformation based methods (QTZ, SVD, Eigen): small matrices
                                // use ~20 eps there; calibrated so that the worst ratio on the unchanged tree is ~1e-2
static LD dimf(int m, int n) { return (LD)(std::max(m, n) + 10); }

template <class T> static LM randomRhs(int m, int k, LD scale, vh::Rng& r) {
    LM B(m, k); for (auto& z : B.a) z = gauss(r, ET<T>::cplx) * scale; return roundTo<T>(B);
}
// square solve: |A x - b| per column
template <class T> static void residOracle(Case& cs, const std::string& op, const LM& A, const LM& B, const LM& X, const std::string& detail = "") {
    if (X.m != A.n || X.n != B.n) { cs.c.viol(cs.key("shape", op), cs.desc().set("got_rows", X.m).set("got_cols", X.n)); return; }
    if (!finiteOrViol(cs, op, X)) return;
    const LD eps = epsOf<T>(), nA = fro(A);
    LM Rm = sub(mul(A, X), B);
    for (int j = 0; j < B.n; ++j) {
        LD res = fro(col(Rm, j)), tol = C_RES * dimf(A.m, A.n) * eps * (nA * fro(col(X, j)) + fro(col(B, j)));
        chk(cs, cs.key("resid", op, detail), (double)res, (double)tol, [&] { return cs.desc().set("column", j).set("normA", (double)nA); });
    }
}
struct LsInfo {                 // what the harness knows about the (truncated) least-squares problem
    int r = 0;                  // rank the library must use
    LD s1 = 0, sr = 0, snext = 0;   // largest, r-th and (r+1)-th singular value (constructed)
    LM Vnull;                   // n x (n-r) orthonormal basis of the null space of the rank-r part
    LD trunc = 1;               // slack factor on snext (SVD truncation is exact: small; QR: larger)
};
// minimum-norm least-squares oracles, per column:
//   (a) A^H (A x - b) ~ 0                     normal equations (backward-stable form, no cond. factor)
//   (b) Vnull^H x ~ 0                         x has no component in the null space (minimum norm)
template <class T> static void lsOracle(Case& cs, const std::string& op, const LM& A, const LM& B, const LM& X, const LsInfo& li, const std::string& detail = "") {
    if (X.m != A.n || X.n != B.n) { cs.c.viol(cs.key("shape", op), cs.desc().set("got_rows", X.m).set("got_cols", X.n)); return; }
    const LD eps = epsOf<T>(), d = dimf(A.m, A.n);
    if (li.r == 0) {            // zero matrix: the minimum-norm solution is exactly 0 (NaN/garbage: same key)
        chk(cs, cs.key("lsq", "solve", "zero-matrix"), (double)fro(X), 0.0, [&] { return cs.desc().set("normX", (double)fro(X)).set("operation", op); });
        return;
    }
    if (!finiteOrViol(cs, op, X)) return;
    LM Rm = sub(mul(A, X), B), G = mulH(A, Rm), Nx = li.Vnull.n ? mulH(li.Vnull, X) : LM(0, X.n);
    for (int j = 0; j < B.n; ++j) {
        // both comparisons are made in relative form (divided by the natural scale) so that extreme
        // magnitudes of b cannot underflow the tolerance
        LD nx = fro(col(X, j)), nb = fro(col(B, j)), sc = li.s1 * (li.s1 * nx + nb);
        if (sc == 0) continue;  // b = 0 and x = 0
        LD tolA = C_ORT * d * eps + li.trunc * li.snext / li.s1;
        chk(cs, cs.key(detail.empty() ? "lsq" : "lsq-extreme", op, detail), (double)(fro(col(G, j)) / sc), (double)tolA,
            [&] { return cs.desc().set("column", j).set("rank", li.r).set("s1", (double)li.s1).set("sr", (double)li.sr).set("snext", (double)li.snext).set("normX", (double)nx).set("normB", (double)nb); });
        if (li.Vnull.n && nx > 0) {
            LD tolB = C_ORT * d * eps * li.s1 / li.sr + li.trunc * li.snext / li.sr;
            chk(cs, cs.key(detail.empty() ? "minnorm" : "minnorm-extreme", op, detail), (double)(fro(col(Nx, j)) / nx), (double)tolB,
                [&] { return cs.desc().set("column", j).set("rank", li.r).set("normX", (double)nx).set("sr", (double)li.sr); });
        }
    }
}
// every library call that takes a vector / matrix rhs of type T
template <class T, class F> static bool solveVec(Case& cs, F& f, const LM& b, LM& x, const std::string& op = "solve-vec") {
    Vector_<T> bv = toVector<T>(b), xv;
    if (!guard(cs, op, [&] { f.solve(bv, xv); })) return false;
    x = fromSimTK<T>(xv); return true;
}
template <class T, class F> static bool solveMat(Case& cs, F& f, const LM& B, LM& X, const std::string& op = "solve-mat") {
    Matrix_<T> bm = toMatrix<T>(B), xm;
    if (!guard(cs, op, [&] { f.solve(bm, xm); })) return false;
    X = fromSimTK<T>(xm); return true;
}
// a right-hand side of a different element type must be rejected by an exception
template <class T, class F> static void typeMismatchProbe(Case& cs, F& f, int rows) {
    typedef typename std::conditional<std::is_same<T, float>::value, double, float>::type D;
    Vector_<D> b(rows), x; b = D(1);
    mustThrow(cs, "solve-type-mismatch", [&] { f.solve(b, x); });
}

// ------------------------------------------------------------------ LU
template <class T> static void caseLU(Case& cs) {
    typedef typename ET<T>::R R;
    vh::Rng& r = cs.r; vh::Ctx& c = cs.c;
    const bool isF = std::is_same<R, float>::value;
    int n = pickSize(r, true);
    cs.m = cs.n = n; cs.shape = n == 0 ? "empty" : n == 1 ? "1x1" : "square";
    int vk = (int)((cs.idx / 20 + (long)(cs.c.args.seed % 15)) % V_COUNT), mode = r.integer(0, M_COUNT - 1);
    cs.view = viewName(vk, ET<T>::cplx); cs.mode = modeName(mode);
    if (n == 0) {
        cs.rankCls = "none";
        c.cover("lu:" + cs.et + ":empty:none:none");
        Matrix_<T> e0(0, 0);
        mustThrow(cs, "factor-zero-dimension", [&] { FactorLU f(e0); });
        FactorLU d; Vector_<T> b(0), x;
        mustThrow(cs, "solve-unfactored", [&] { d.solve(b, x); });
        return;
    }
    double u = r.uni();
    LD scale = pickScale(r, isF), kappa;
    int zeroCol = -1;
    if (u < 0.60) { cs.rankCls = "full"; kappa = (LD)r.logUni(1, isF ? 30 : 1e3); }
    else if (u < 0.85 || n == 1) { cs.rankCls = "nearly-singular"; kappa = (LD)r.logUni(isF ? 1e2 : 1e5, isF ? 1e4 : 1e10); }
    else { cs.rankCls = "singular-zero-column"; kappa = (LD)r.logUni(1, 30); zeroCol = r.integer(0, n - 1); }
    Truth t = makeTruth(n, n, ET<T>::cplx, r);
    fillSigma(t.sig, n, scale, kappa, 0, r);
    LM A = roundTo<T>(assemble(t));
    if (zeroCol >= 0) for (int i = 0; i < n; ++i) A(i, zeroCol) = LC(0);
    std::unique_ptr<FactorLU> f;
    withView<T>(A, vk, [&](const auto& mat) { guard(cs, "factor", [&] { f = makeFactor<FactorLU, T>(mat, mode, false, R(0)); }); });
    c.cover("view:lu:" + cs.et + ":" + cs.view); c.cover("mode:lu:" + cs.mode);
    if (!f) return;
    if (zeroCol >= 0) {
        c.cover("lu:" + cs.et + ":" + cs.shape + ":" + cs.rankCls + ":none");
        bool sing = false; int idx = -1;
        if (guard(cs, "isSingular", [&] { sing = f->isSingular(); idx = f->getSingularIndex(); }))
            c.require(cs.key("flag", "getSingularIndex", "zero-column"), sing && idx == zeroCol + 1,
                      [&] { return cs.desc().set("zero_column", zeroCol).set("isSingular", sing).set("index", idx); });
        return;
    }
    { bool sing = true; int idx = -1;
      if (guard(cs, "isSingular", [&] { sing = f->isSingular(); idx = f->getSingularIndex(); }))
          c.require(cs.key("flag", "isSingular", "nonsingular-input"), !sing && idx == 0,
                    [&] { return cs.desc().set("isSingular", sing).set("index", idx).set("kappa", (double)kappa); }); }
    LD bs = scale * (LD)r.logUni(0.01, 100);
    bool matRhs = r.coin(0.5);
    c.cover("lu:" + cs.et + ":" + cs.shape + ":" + cs.rankCls + ":" + (matRhs ? "mat" : "vec"));
    LM X;
    { LM b = randomRhs<T>(n, 1, bs, r); if (solveVec<T>(cs, *f, b, X)) residOracle<T>(cs, "solve-vec", A, b, X); }
    if (matRhs) { LM B = randomRhs<T>(n, r.integer(1, 5), bs, r); if (solveMat<T>(cs, *f, B, X)) residOracle<T>(cs, "solve-mat", A, B, X); }
    if (r.coin(0.5)) {
        Matrix_<T> inv;
        if (guard(cs, "inverse", [&] { f->inverse(inv); })) residOracle<T>(cs, "inverse", A, eye(n), fromSimTK<T>(inv));
    }
    if (r.coin(0.5)) {          // getL * getU must be a row permutation of A, L unit lower, U upper triangular
        Matrix_<T> Lm, Um;
        if (guard(cs, "getL-getU", [&] { f->getL(Lm); f->getU(Um); })) {
            LM L = fromSimTK<T>(Lm), U = fromSimTK<T>(Um);
            bool shapeOk = L.m == n && L.n == n && U.m == n && U.n == n, tri = shapeOk;
            LD eps = epsOf<T>(), nA = fro(A);
            if (shapeOk) for (int i = 0; i < n; ++i) for (int j = 0; j < n; ++j) {
                if (j > i && L(i, j) != LC(0)) tri = false;
                if (j < i && U(i, j) != LC(0)) tri = false;
                if (j == i && std::abs(L(i, i) - LC(1)) > 4 * eps) tri = false;
            }
            LD worst = 0;
            if (tri) {          // each row of L*U must match a distinct row of A
                LM P = mul(L, U); std::vector<char> used(n, 0);
                for (int i = 0; i < n; ++i) { LD best = -1; int bj = -1;
                    for (int k = 0; k < n; ++k) { if (used[k]) continue; LD s = 0; for (int j = 0; j < n; ++j) s += cabs2(P(i, j) - A(k, j));
                        if (bj < 0 || s < best) { best = s; bj = k; } }
                    used[bj] = 1; worst = std::max(worst, std::sqrt(best)); }
            }
            if (!tri) c.viol(cs.key("factors", "getL-getU", "not-triangular"), cs.desc());
            else chk(cs, cs.key("factors", "getL-getU", "LU-is-not-PA"), (double)worst, (double)(C_RES * dimf(n, n) * eps * nA * std::max((LD)1, fro(L))), [&] { return cs.desc(); });
        }
    }
    if (r.coin(0.15)) typeMismatchProbe<T>(cs, *f, n);
}

// ------------------------------------------------------------------ LLT (Cholesky)
template <class T> static void caseLLT(Case& cs) {
    typedef typename ET<T>::R R;
    vh::Rng& r = cs.r; vh::Ctx& c = cs.c;
    const bool isF = std::is_same<R, float>::value;
    int n = pickSize(r, true);
    cs.m = cs.n = n; cs.shape = n == 0 ? "empty" : n == 1 ? "1x1" : "square";
    int vk = (int)((cs.idx / 20 + (long)(cs.c.args.seed % 15)) % V_COUNT), mode = r.integer(0, M_COUNT - 1);
    cs.view = viewName(vk, ET<T>::cplx); cs.mode = modeName(mode);
    if (n == 0) {
        cs.rankCls = "none"; c.cover("llt:" + cs.et + ":empty:none:none");
        Matrix_<T> e0(0, 0);
        mustThrow(cs, "factor-zero-dimension", [&] { FactorLLT f(e0); });
        return;
    }
    LD scale = pickScale(r, isF), kappa;
    if (r.coin(0.7)) { cs.rankCls = "full"; kappa = (LD)r.logUni(1, isF ? 30 : 1e3); }
    else { cs.rankCls = "nearly-singular"; kappa = (LD)r.logUni(isF ? 1e2 : 1e4, isF ? 1e3 : 1e8); }
    Truth t = makeTruth(n, n, ET<T>::cplx, r);
    t.V = t.U;                                         // A = Q D Q^H, D > 0
    fillSigma(t.sig, n, scale, kappa, 0, r);
    LM A0 = assemble(t), A(n, n);
    for (int j = 0; j < n; ++j) for (int i = j; i < n; ++i) {     // round the lower triangle, mirror it
        LC z = toLC<T>(fromLC<T>(A0(i, j))); if (i == j) z = LC(z.real(), 0);
        A(i, j) = z; A(j, i) = cconj(z); }
    std::unique_ptr<FactorLLT> f;
    withView<T>(A, vk, [&](const auto& mat) { guard(cs, "factor", [&] { f = makeFactor<FactorLLT, T>(mat, mode, false, R(0)); }); });
    c.cover("view:llt:" + cs.et + ":" + cs.view); c.cover("mode:llt:" + cs.mode);
    if (!f) return;
    LD bs = scale * (LD)r.logUni(0.01, 100);
    bool matRhs = r.coin(0.5);
    c.cover("llt:" + cs.et + ":" + cs.shape + ":" + cs.rankCls + ":" + (matRhs ? "mat" : "vec"));
    LM X;
    { LM b = randomRhs<T>(n, 1, bs, r); if (solveVec<T>(cs, *f, b, X)) residOracle<T>(cs, "solve-vec", A, b, X); }
    if (matRhs) { LM B = randomRhs<T>(n, r.integer(1, 5), bs, r); if (solveMat<T>(cs, *f, B, X)) residOracle<T>(cs, "solve-mat", A, B, X); }
    if (r.coin(0.5)) {
        Matrix_<T> inv;
        if (guard(cs, "inverse", [&] { f->inverse(inv); })) residOracle<T>(cs, "inverse", A, eye(n), fromSimTK<T>(inv));
    }
    if (r.coin(0.6)) {
        Matrix_<T> Lm;
        if (guard(cs, "getL", [&] { f->getL(Lm); })) {
            LM L = fromSimTK<T>(Lm);
            bool ok = L.m == n && L.n == n;
            if (ok) for (int i = 0; i < n; ++i) { if (!(L(i, i).real() > 0) || L(i, i).imag() != 0) ok = false;
                for (int j = i + 1; j < n; ++j) if (L(i, j) != LC(0)) ok = false; }
            if (!ok) c.viol(cs.key("factors", "getL", "not-lower-triangular-positive-diagonal"), cs.desc());
            else chk(cs, cs.key("factors", "getL", "LLh-is-not-A"), (double)fro(sub(mul(L, herm(L)), A)),
                         (double)(C_RES * dimf(n, n) * epsOf<T>() * fro(A)), [&] { return cs.desc(); });
        }
    }
    if (r.coin(0.15)) typeMismatchProbe<T>(cs, *f, n);
}

// ------------------------------------------------------------------ rectangular generator for QTZ / SVD
static const LD DB = 100;        // dead band around the rank cut: no singular value in (rc/DB, rc*DB)*s1
struct RectCase {
    Truth t; LM A; LsInfo li;
    bool useRc = false; LD rc = 0;   // rcond handed to the library (useRc false: library default)
    bool structural = false; std::vector<int> zeroCols;
    bool rankWellPosed = true;
};
template <class T> static LD defaultRcond(int m, int n) {
    typedef typename ET<T>::R R;
    return (LD)std::max(m, n) * (LD)NTraits<R>::getSignificant();      // documented default: max(m,n)*eps^(7/8)
}
// shape from the case index so that every <factorization, type, shape> cell is forced
static void pickShape(Case& cs, int& m, int& n, bool allowZero) {
    vh::Rng& r = cs.r;
    int sc = (int)((cs.idx / 20) % 3);                 // 0 square, 1 tall, 2 wide
    int a = pickSize(r, allowZero), b = a;
    if (sc != 0) { b = pickSize(r, false); if (b == a) b = a + r.integer(1, 5); if (b > 40) b = a > 1 ? a - 1 : 2; }
    int big = std::max(a, b), small = std::min(a, b);
    if (sc == 0) { m = n = a; } else if (sc == 1) { m = big; n = small; } else { m = small; n = big; }
    cs.m = m; cs.n = n;
    cs.shape = (m == 0 || n == 0) ? "empty" : (m == 1 && n == 1) ? "1x1" : m == n ? "square" : m > n ? "tall" : "wide";
}
template <class T> static RectCase makeRect(Case& cs, int m, int n, bool allowStructural) {
    typedef typename ET<T>::R R;
    vh::Rng& r = cs.r;
    const bool isF = std::is_same<R, float>::value;
    RectCase rc; rc.t = makeTruth(m, n, ET<T>::cplx, r);
    const int k = rc.t.k;
    LD scale = pickScale(r, isF);
    // rcond: library default or a user value
    LD rcd = defaultRcond<T>(m, n);
    if (r.coin(0.5)) { rc.useRc = true; rc.rc = (LD)(R)r.logUni(isF ? 1e-4 : 1e-10, isF ? 1e-2 : 1e-3); } else rc.rc = rcd;
    const LD cut = rc.rc;
    const LD kmod = std::min((LD)(isF ? 30 : 1e3), 1 / (DB * cut));
    double u = r.uni();
    int rnk = k; LD kappa = 1, tail = 0;
    if (k == 0) cs.rankCls = "none";
    else if (u < 0.04) { cs.rankCls = "zero"; rnk = 0; }
    else if (u < 0.40 || k == 1) { cs.rankCls = "full"; kappa = (LD)r.logUni(1, (double)kmod); }
    else if (u < 0.55) { cs.rankCls = "nearly-singular"; LD khi = std::min((LD)(isF ? 1e4 : 1e10), 1 / (DB * cut)); kappa = (LD)r.logUni((double)std::sqrt(khi), (double)khi); }
    else if (u < 0.75) { cs.rankCls = "deficient-exact"; rnk = r.integer(1, k - 1); kappa = (LD)r.logUni(1, (double)kmod); }
    else if (u < 0.90 || !allowStructural || m < n) { cs.rankCls = "deficient-near"; rnk = r.integer(1, k - 1); kappa = (LD)r.logUni(1, (double)kmod);
        tail = (LD)r.logUni((double)(cut / (DB * 100)), (double)(cut / DB)); }
    else { cs.rankCls = "structural-zero-columns"; rc.structural = true; kappa = (LD)r.logUni(1, (double)kmod);
        if (r.coin(0.5)) { rc.useRc = true; rc.rc = 0; } }
    if (rnk == 0) { rc.A = LM(m, n); rc.li.r = 0; return rc; }
    fillSigma(rc.t.sig, rnk, scale, kappa, 0, r);
    for (int i = rnk; i < k; ++i) rc.t.sig[i] = tail * scale * (LD)r.uni(0.5, 1.0);
    std::sort(rc.t.sig.begin() + rnk, rc.t.sig.end(), [](LD a, LD b) { return a > b; });
    rc.A = roundTo<T>(assemble(rc.t));
    rc.li.r = rnk; rc.li.s1 = rc.t.sig[0]; rc.li.sr = rc.t.sig[rnk - 1]; rc.li.snext = rnk < k ? rc.t.sig[rnk] : 0;
    rc.li.Vnull = cols(rc.t.V, rnk, n);
    if (rc.structural) {        // m >= n: zero out z columns exactly; rank n - z, null space = span(e_j)
        int z = r.integer(1, std::max(1, n / 2)); if (z >= n) z = n - 1;
        if (z < 1) { rc.structural = false; cs.rankCls = "full"; return rc; }
        std::vector<int> perm(n); for (int i = 0; i < n; ++i) perm[i] = i;
        for (int i = 0; i < z; ++i) std::swap(perm[i], perm[i + r.integer(0, n - 1 - i)]);
        rc.zeroCols.assign(perm.begin(), perm.begin() + z);
        for (int j : rc.zeroCols) for (int i = 0; i < m; ++i) rc.A(i, j) = LC(0);
        rc.li.r = n - z; rc.li.snext = 0; rc.li.sr = rc.t.sig[k - 1];      // sigma_min of a column subset >= sigma_min
        rc.li.Vnull = LM(n, z); for (int i = 0; i < z; ++i) rc.li.Vnull(rc.zeroCols[i], i) = LC(1);
    }
    return rc;
}

// A right-hand side whose norm is outside [safmin/eps, eps/safmin] of the element type (the range in
// which the least-squares drivers rescale b); well-conditioned unit-scale matrices only, so that x is
// representable. The answer must scale linearly like any other.
template <class T, class F> static void extremeRhs(Case& cs, F& f, const RectCase& rc) {
    typedef typename ET<T>::R R;
    if (!(cs.rankCls == "full" && rc.li.s1 == 1 && cs.r.coin(0.25))) return;
    const bool isF = std::is_same<R, float>::value, tiny = cs.r.coin(0.5);
    LD bs = tiny ? (isF ? 1e-33L : 1e-295L) : (isF ? 1e33L : 1e295L);
    cs.c.cover(cs.fact + ":" + cs.et + ":" + cs.shape + ":full:" + (tiny ? "vec-tiny-norm" : "vec-huge-norm"));
    LM b = randomRhs<T>(cs.m, 1, bs, cs.r), X;
    if (solveVec<T>(cs, f, b, X, "solve-vec")) lsOracle<T>(cs, "solve-vec", rc.A, b, X, rc.li, "rhs-norm-outside-safe-range");
}

// ------------------------------------------------------------------ QTZ
template <class T> static void caseQTZ(Case& cs) {
    typedef typename ET<T>::R R;
    vh::Rng& r = cs.r; vh::Ctx& c = cs.c;
    int m, n; pickShape(cs, m, n, true);
    int vk = (int)((cs.idx / 60 + (long)(cs.c.args.seed % 15)) % V_COUNT), mode = r.integer(0, M_COUNT - 1);
    cs.view = viewName(vk, ET<T>::cplx); cs.mode = modeName(mode);
    if (m == 0 || n == 0) {
        cs.rankCls = "none"; c.cover("qtz:" + cs.et + ":empty:none:none");
        Matrix_<T> e0(m, n);
        mustThrow(cs, "factor-zero-dimension", [&] { FactorQTZ f(e0); });
        FactorQTZ d; Vector_<T> b(1), x;
        mustThrow(cs, "solve-unfactored", [&] { d.solve(b, x); });
        return;
    }
    RectCase rc = makeRect<T>(cs, m, n, true);
    rc.li.trunc = 30 * std::sqrt(dimf(m, n));
    std::unique_ptr<FactorQTZ> f;
    withView<T>(rc.A, vk, [&](const auto& mat) { guard(cs, "factor", [&] { f = makeFactor<FactorQTZ, T>(mat, mode, rc.useRc, (R)rc.rc); }); });
    c.cover("view:qtz:" + cs.et + ":" + cs.view); c.cover("mode:qtz:" + cs.mode); c.cover(std::string("rcond:qtz:") + (rc.useRc ? (rc.rc == 0 ? "zero" : "user") : "default"));
    if (!f) return;
    auto wit = [&] { return cs.desc().set("rcond", (double)rc.rc).set("user_rcond", rc.useRc).set("expected_rank", rc.li.r)
                         .set("s1", (double)rc.li.s1).set("sr", (double)rc.li.sr).set("snext", (double)rc.li.snext); };
    int rank = -1; double rce = -1;
    if (guard(cs, "getRank", [&] { rank = f->getRank(); rce = f->getRCondEstimate(); })) {
        c.require(cs.key("rank", "getRank"), rank == rc.li.r, [&] { return wit().set("rank", rank); });
        if (rc.li.r >= 1 && !rc.structural) {          // "actual reciprocal condition number at this rank"
            LD want = rc.li.sr / rc.li.s1, fac = 10 * dimf(m, n);
            bool ok = std::isfinite(rce) && (LD)rce >= want / fac && (LD)rce <= want * fac;
            c.require(cs.key("rcond", "getRCondEstimate", rc.li.r == 1 ? "rank-1" : "rank>1"), ok, [&] { return wit().set("estimate", rce).set("sr_over_s1", (double)want); });
        }
    }
    LD bs = (rc.li.r ? rc.li.s1 : 1) * (LD)r.logUni(0.01, 100);
    bool matRhs = r.coin(0.5);
    c.cover("qtz:" + cs.et + ":" + cs.shape + ":" + cs.rankCls + ":" + (matRhs ? "mat" : "vec"));
    if (rank != rc.li.r && rank >= 0) { c.skip("qtz: rank differs, solve not judged against the constructed rank"); }
    else {
        LM X;
        { LM b = randomRhs<T>(m, 1, bs, r); if (solveVec<T>(cs, *f, b, X)) lsOracle<T>(cs, "solve-vec", rc.A, b, X, rc.li); }
        if (matRhs) { LM B = randomRhs<T>(m, r.integer(1, 5), bs, r); if (solveMat<T>(cs, *f, B, X)) lsOracle<T>(cs, "solve-mat", rc.A, B, X, rc.li); }
        extremeRhs<T>(cs, *f, rc);
        if (m == n && r.coin(0.5)) {                   // square: inverse = pseudo-inverse of the rank-r part
            Matrix_<T> inv;
            if (guard(cs, "inverse", [&] { f->inverse(inv); })) lsOracle<T>(cs, "inverse", rc.A, eye(m), fromSimTK<T>(inv), rc.li);
        }
    }
    if (m != n && r.coin(0.1)) {                        // rectangular inverse: undocumented; outcome only counted
        Matrix_<T> inv; bool threw = false;
        c.setPhase("qtz.inverse rectangular");
        try { f->inverse(inv); } catch (const std::exception&) { threw = true; }
        c.obs(std::string("qtz.inverse-rectangular:") + (threw ? "exception" : "returned"));
    }
    if (r.coin(0.1)) typeMismatchProbe<T>(cs, *f, m);
}

// ------------------------------------------------------------------ SVD
template <class T> static void caseSVD(Case& cs) {
    typedef typename ET<T>::R R;
    vh::Rng& r = cs.r; vh::Ctx& c = cs.c;
    int m, n; pickShape(cs, m, n, true);
    int vk = (int)((cs.idx / 60 + (long)(cs.c.args.seed % 15)) % V_COUNT), mode = r.integer(0, M_COUNT - 1);
    cs.view = viewName(vk, ET<T>::cplx); cs.mode = modeName(mode);
    RectCase rc;
    if (m == 0 || n == 0) { cs.rankCls = "none"; rc.A = LM(m, n); rc.t.m = m; rc.t.n = n; rc.rc = defaultRcond<T>(m, n); }
    else rc = makeRect<T>(cs, m, n, false);
    rc.li.trunc = 30;
    const int k = std::min(m, n);
    std::unique_ptr<FactorSVD> f;
    withView<T>(rc.A, vk, [&](const auto& mat) { guard(cs, "factor", [&] { f = makeFactor<FactorSVD, T>(mat, mode, rc.useRc, (R)rc.rc); }); });
    c.cover("view:svd:" + cs.et + ":" + cs.view); c.cover("mode:svd:" + cs.mode); c.cover(std::string("rcond:svd:") + (rc.useRc ? "user" : "default"));
    if (!f) return;
    auto wit = [&] { return cs.desc().set("rcond", (double)rc.rc).set("user_rcond", rc.useRc).set("expected_rank", rc.li.r)
                         .set("s1", (double)rc.li.s1).set("sr", (double)rc.li.sr).set("snext", (double)rc.li.snext); };
    const LD eps = epsOf<T>(), d = dimf(m, n), nA = fro(rc.A);
    bool matRhs = r.coin(0.5);
    c.cover("svd:" + cs.et + ":" + cs.shape + ":" + cs.rankCls + ":" + (matRhs ? "mat" : "vec"));
    // the four groups of calls come in a random order: answers must not depend on the history
    int order[4] = {0, 1, 2, 3};
    for (int i = 3; i > 0; --i) std::swap(order[i], order[r.integer(0, i)]);
    std::string hist;
    for (int step = 0; step < 4; ++step) switch (order[step]) {
    case 0: {                   // singular values
        hist += "v";
        Vector_<R> sv;
        if (!guard(cs, "getSingularValues", [&] { f->getSingularValues(sv); })) break;
        bool ok = sv.size() == k; LD worst = 0;
        if (ok) for (int i = 0; i < k; ++i) { if (!(sv[i] >= 0) || (i && sv[i] > sv[i - 1])) ok = false; worst = std::max(worst, std::abs((LD)sv[i] - rc.t.sig[i])); }
        if (!ok) c.viol(cs.key("sv", "getSingularValues", "not-descending-nonnegative-or-wrong-count"), wit().set("count", sv.size()));
        else chk(cs, cs.key("sv", "getSingularValues"), (double)worst, (double)(C_ORT * d * eps * nA), [&] { return wit(); });
        break; }
    case 1: {                   // rank
        hist += "r";
        if (k == 0) break;
        int rank = -1;
        if (guard(cs, "getRank", [&] { rank = f->getRank(); }))
            c.require(cs.key("rank", "getRank", (rank == 0 && rc.li.r > 0) ? "returned-zero" : "mismatch"), rank == rc.li.r,
                      [&] { return wit().set("rank", rank).set("calls_before", hist); });
        break; }
    case 2: {                   // factors
        hist += "f";
        Vector_<R> sv; Matrix_<T> Um, Vm;
        if (!guard(cs, "getSingularValuesAndVectors", [&] { f->getSingularValuesAndVectors(sv, Um, Vm); })) break;
        if (k == 0) { c.require(cs.key("shape", "getSingularValuesAndVectors", "empty"), sv.size() == 0 && Um.nelt() == 0 && Vm.nelt() == 0, [&] { return cs.desc(); }); break; }
        LM U = fromSimTK<T>(Um), Vt = fromSimTK<T>(Vm);
        if (!(U.m == m && U.n == m && Vt.m == n && Vt.n == n && sv.size() == k)) { c.viol(cs.key("shape", "getSingularValuesAndVectors"), cs.desc()); break; }
        if (!finiteOrViol(cs, "getSingularValuesAndVectors", U) || !finiteOrViol(cs, "getSingularValuesAndVectors", Vt)) break;
        chk(cs, cs.key("orth", "leftVectors"), (double)fro(sub(mulH(U, U), eye(m))), (double)(C_ORT * d * eps * std::sqrt((LD)m)), [&] { return cs.desc(); });
        chk(cs, cs.key("orth", "rightVectors"), (double)fro(sub(mul(Vt, herm(Vt)), eye(n))), (double)(C_ORT * d * eps * std::sqrt((LD)n)), [&] { return cs.desc(); });
        LM US(m, n); bool desc = true;
        for (int j = 0; j < k; ++j) { if (!(sv[j] >= 0) || (j && sv[j] > sv[j - 1])) desc = false; for (int i = 0; i < m; ++i) US(i, j) = U(i, j) * (LD)sv[j]; }
        c.require(cs.key("sv", "getSingularValuesAndVectors", "not-descending-nonnegative"), desc, [&] { return cs.desc(); });
        // rightVectors holds V^H (rows are the right singular vectors): A = U * S * rightVectors
        chk(cs, cs.key("recon", "U.S.Vh-is-not-A"), (double)fro(sub(mul(US, Vt), rc.A)), (double)(C_ORT * d * eps * nA), [&] { return wit(); });
        break; }
    default: {                  // solves and inverse
        hist += "s";
        LM X;
        LD bs = (rc.li.r ? rc.li.s1 : 1) * (LD)r.logUni(0.01, 100);
        if (k == 0) {           // empty system: the answer is empty
            Vector_<T> b(m), x(3); if (m) b = T(1);
            if (guard(cs, "solve-vec", [&] { f->solve(b, x); })) c.require(cs.key("shape", "solve-vec", "empty"), x.size() == 0, [&] { return cs.desc().set("size", x.size()); });
            break;
        }
        { LM b = randomRhs<T>(m, 1, bs, r); if (solveVec<T>(cs, *f, b, X)) lsOracle<T>(cs, "solve-vec", rc.A, b, X, rc.li); }
        if (matRhs) { LM B = randomRhs<T>(m, r.integer(1, 5), bs, r); if (solveMat<T>(cs, *f, B, X)) lsOracle<T>(cs, "solve-mat", rc.A, B, X, rc.li); }
        extremeRhs<T>(cs, *f, rc);
        if (r.coin(0.5)) {      // documented as the pseudo inverse: n x m, defined for every shape
            Matrix_<T> inv;
            if (guard(cs, "inverse", [&] { f->inverse(inv); }, cs.shape == "tall" ? "tall" : "")) lsOracle<T>(cs, "inverse", rc.A, eye(m), fromSimTK<T>(inv), rc.li);
        }
        break; }
    }
    if (k > 0 && r.coin(0.1)) typeMismatchProbe<T>(cs, *f, m);
}

// ------------------------------------------------------------------ Eigen
// Only Eigen(const Matrix_<E>&), getAllEigenValues(Vector_<complex>) and
// getAllEigenValuesAndVectors(Vector_<complex>, Matrix_<complex>) are instantiated by the library.
template <class T> static void caseEigen(Case& cs) {
    typedef typename ET<T>::R R;
    typedef std::complex<R> CT;
    vh::Rng& r = cs.r; vh::Ctx& c = cs.c;
    const bool isF = std::is_same<R, float>::value, cplx = ET<T>::cplx;
    int n = pickSize(r, true);
    cs.m = cs.n = n; cs.shape = n == 0 ? "empty" : n == 1 ? "1x1" : "square";
    int vk = (int)((cs.idx / 20 + (long)(cs.c.args.seed % 15)) % V_COUNT), mode = r.integer(0, 3);
    static const char* modes[] = {"ctor", "copy-ctor", "assign-temporary", "values-then-vectors"};
    cs.view = viewName(vk, cplx); cs.mode = modes[mode];
    LD scale = pickScale(r, isF);
    // matrix classes: hermitian (known real eigenvalues), diagonalizable X D X^-1 (known eigenvalues,
    // cond(X) bounded), gaussian (nothing known)
    double u = r.uni();
    std::vector<LC> lam; LD kX = 1; LM A(n, n); bool herm_ = false;
    if (n == 0) cs.rankCls = "none";
    else if (u < 0.35) {
        cs.rankCls = "hermitian"; herm_ = true;
        LM Q = randomUnitary(n, cplx, r), D(n, n);
        for (int i = 0; i < n; ++i) { LD v = scale * (LD)r.sym(); if (i && r.coin(0.1)) v = lam[i - 1].real(); lam.push_back(LC(v, 0)); D(i, i) = lam[i]; }
        LM A0 = mul(mul(Q, D), herm(Q));
        for (int j = 0; j < n; ++j) for (int i = j; i < n; ++i) { LC z = toLC<T>(fromLC<T>(A0(i, j))); if (i == j) z = LC(z.real(), 0); A(i, j) = z; A(j, i) = cconj(z); }
    } else if (u < 0.80) {
        cs.rankCls = "diagonalizable";
        kX = (LD)r.logUni(1, isF ? 10 : 100);
        LM Q1 = randomUnitary(n, cplx, r), Q2 = randomUnitary(n, cplx, r), S(n, n), Si(n, n), D(n, n);
        for (int i = 0; i < n; ++i) { LD s = std::exp(-(LD)r.uni() * std::log(kX)); if (i == 0) s = 1; if (i == n - 1 && n > 1) s = 1 / kX; S(i, i) = s; Si(i, i) = 1 / s; }
        for (int i = 0; i < n; ++i) {
            if (cplx) { lam.push_back(LC(r.sym(), r.sym()) * scale); D(i, i) = lam.back(); }
            else if (i + 1 < n && r.coin(0.5)) {       // real 2x2 block: eigenvalues a +- i b
                LD a = scale * (LD)r.sym(), b = scale * (LD)r.uni(0.05, 1);
                D(i, i) = a; D(i + 1, i + 1) = a; D(i, i + 1) = b; D(i + 1, i) = -b;
                lam.push_back(LC(a, b)); lam.push_back(LC(a, -b)); ++i;
            } else { lam.push_back(LC(scale * (LD)r.sym(), 0)); D(i, i) = lam.back(); }
        }
        LM X = mul(mul(Q1, S), herm(Q2)), Xi = mul(mul(Q2, Si), herm(Q1));
        A = roundTo<T>(mul(mul(X, D), Xi));
    } else {
        cs.rankCls = "gaussian";
        for (auto& z : A.a) z = gauss(r, cplx) * scale; A = roundTo<T>(A);
    }
    c.cover("eigen:" + cs.et + ":" + cs.shape + ":" + cs.rankCls + ":" + cs.mode);
    c.cover("view:eigen:" + cs.et + ":" + cs.view);
    std::unique_ptr<Eigen> e;
    withView<T>(A, vk, [&](const auto& mat) { guard(cs, "construct", [&] {
        if (mode == 1) { std::unique_ptr<Eigen> g(new Eigen(mat)); e.reset(new Eigen(*g)); g.reset(); }
        else if (mode == 2) { Matrix_<double> d(2, 2); d = 0; d(0, 0) = 1; d(1, 1) = 2; e.reset(new Eigen(d)); *e = Eigen(mat); }
        else e.reset(new Eigen(mat));
    }); });
    if (!e) return;
    const LD eps = epsOf<T>(), d = dimf(n, n), nA = fro(A);
    auto wit = [&] { return cs.desc().set("normA", (double)nA).set("condX", (double)kX).set("scale", (double)scale); };
    Vector_<CT> vals0;
    std::unique_ptr<Eigen> fresh;                       // untouched copy: tells a sequence defect from a plain one
    if (mode == 3 || r.coin(0.3)) {                     // values only, first
        guard(cs, "copy", [&] { fresh.reset(new Eigen(*e)); });
        if (!guard(cs, n == 0 ? "compute" : "getAllEigenValues", [&] { e->getAllEigenValues(vals0); }, n == 0 ? "empty" : "")) return;
    }
    Vector_<CT> vals; Matrix_<CT> vecs;
    if (std::is_same<T, std::complex<double> >::value && n > 0) {
        // complex<double>: the output matrix is not resized by the library (Eigen.cpp copyVectors), an
        // unsized output (the documented usage) makes it write through a null pointer. The main path
        // pre-sizes the output; the documented usage is probed in a child process now and then.
        if (r.coin(0.04)) {
            c.setPhase("eigen.getAllEigenValuesAndVectors cd unsized output (isolated child)");
            Eigen e2(*e);
            int rc = isolated([&] { Vector_<CT> v2; Matrix_<CT> m2; e2.getAllEigenValuesAndVectors(v2, m2); return m2.nrow() == n && m2.ncol() == n; });
            c.obs("eigen.cd.unsized-output:" + std::string(rc == 0 ? "ok" : rc < 0 ? "child-killed" : "wrong"));
            c.require(cs.key("crash", "getAllEigenValuesAndVectors", "unsized-output-matrix"), rc == 0, [&] { return cs.desc().set("child_status", rc); });
        }
        vecs.resize(n, n);
    }
    if (!guard(cs, n == 0 ? "compute" : "getAllEigenValuesAndVectors", [&] { e->getAllEigenValuesAndVectors(vals, vecs); }, n == 0 ? "empty" : "")) return;
    if (!(vals.size() == n && vecs.nrow() == n && vecs.ncol() == n)) { c.viol(cs.key("shape", "getAllEigenValuesAndVectors"), cs.desc().set("values", vals.size()).set("rows", vecs.nrow()).set("cols", vecs.ncol())); return; }
    if (n == 0) { c.require(cs.key("shape", "getAllEigenValuesAndVectors", "empty"), true, [&] { return cs.desc(); }); return; }
    LM L = fromSimTK<CT>(vals), V = fromSimTK<CT>(vecs);
    const std::string seq = vals0.size() ? "after-values-only" : "";
    // judge eigenpairs column by column; 'skip' marks columns that are already wrong on the untouched
    // copy (they are reported there, under their own key, and say nothing about the call sequence)
    auto judgeVectors = [&](const LM& Lx, const LM& Vx, const std::string& sq, std::vector<char>& bad, const std::vector<char>* skip) {
        bad.assign(n, 0);
        if (!sq.empty() && !allFinite(Vx)) {           // same defect as wrong vectors: uninitialized output
            c.viol(cs.key("eigdefect", "vectors", sq), wit().set("what", "NaN/Inf in eigenvectors")); return; }
        if (!finiteOrViol(cs, "getAllEigenValuesAndVectors", Lx) || !finiteOrViol(cs, "getAllEigenValuesAndVectors", Vx)) return;
        LM AV = mul(A, Vx);
        for (int j = 0; j < n; ++j) {
            if (skip && (*skip)[j]) { c.obs("eigen.sequence-column-not-judged(already wrong on fresh copy)"); continue; }
            LD nv = fro(col(Vx, j)), res = 0;
            for (int i = 0; i < n; ++i) res += cabs2(AV(i, j) - cmul(Lx(j, 0), Vx(i, j)));
            res = std::sqrt(res);
            // attribute: LapackInterface::geev<real> treats |Im lambda| < 1e-6 (absolute) as a real eigenvalue
            std::string det = sq;
            if (sq.empty() && !cplx && Lx(j, 0).imag() != 0 && std::abs(Lx(j, 0).imag()) < (LD)1e-6) det = "complex-pair-with-tiny-imaginary-part";
            const std::string opn = det.empty() ? "vector-norm" : "vectors", opr = det.empty() ? "A.v-is-not-lambda.v" : "vectors";
            bool ok1 = c.require(cs.key(det.empty() ? "eig" : "eigdefect", opn, det), nv > 0.5 && nv < 2, [&] { return wit().set("column", j).set("norm", (double)nv).set("what", "norm of eigenvector not 1"); });
            bool ok2 = chk(cs, cs.key(det.empty() ? "eig" : "eigdefect", opr, det), (double)res, (double)(C_ORT * d * eps * nA * std::max(nv, (LD)1)),
                    [&] { return wit().set("column", j).set("re_lambda", (double)Lx(j, 0).real()).set("im_lambda", (double)Lx(j, 0).imag()); });
            if (!ok1 || !ok2) bad[j] = 1;
        }
    };
    std::vector<char> badFresh, badSeq;
    if (!seq.empty() && fresh) {
        Vector_<CT> fv; Matrix_<CT> fm;
        if (std::is_same<T, std::complex<double> >::value) fm.resize(n, n);
        if (guard(cs, "getAllEigenValuesAndVectors", [&] { fresh->getAllEigenValuesAndVectors(fv, fm); }) && fv.size() == n && fm.nrow() == n && fm.ncol() == n)
            judgeVectors(fromSimTK<CT>(fv), fromSimTK<CT>(fm), "", badFresh, nullptr);
    }
    judgeVectors(L, V, seq, badSeq, badFresh.size() == (size_t)n ? &badFresh : nullptr);
    if (!allFinite(L) || !allFinite(V)) return;
    // the eigenvalue sets (both calls): sum = trace; every value near a constructed eigenvalue (Bauer-Fike)
    auto judgeValues = [&](const LM& Lv, const std::string& op) {
        LC tr(0), sum(0); for (int i = 0; i < n; ++i) { tr += A(i, i); sum += Lv(i, 0); }
        chk(cs, cs.key("eigval", op, "sum-is-not-trace"), (double)std::abs(sum - tr), (double)(C_ORT * d * eps * nA * std::sqrt((LD)n)), [&] { return wit(); });
        if (lam.empty()) return;
        LD worst = 0, worstIm = 0;
        for (int i = 0; i < n; ++i) { LD best = -1; for (auto& t : lam) { LD dd = std::abs(Lv(i, 0) - t); if (best < 0 || dd < best) best = dd; }
            worst = std::max(worst, best); worstIm = std::max(worstIm, std::abs(Lv(i, 0).imag())); }
        chk(cs, cs.key("eigval", op, cs.rankCls), (double)worst, (double)(C_ORT * d * eps * nA * kX * 4), [&] { return wit(); });
        if (herm_) chk(cs, cs.key("eigval", op, "hermitian-not-real"), (double)worstIm, (double)(C_ORT * d * eps * nA), [&] { return wit(); });
    };
    judgeValues(L, "getAllEigenValuesAndVectors");
    if (vals0.size() || mode == 3) {
        if (vals0.size() != n) c.viol(cs.key("shape", "getAllEigenValues"), cs.desc().set("values", vals0.size()));
        else { LM L0 = fromSimTK<CT>(vals0); if (finiteOrViol(cs, "getAllEigenValues", L0)) judgeValues(L0, "getAllEigenValues"); }
    }
}

// ------------------------------------------------------------------ environment work-around
// OpenBLAS 0.3.21 (the system BLAS/LAPACK) over-reads: its complex gemv_n, called by LAPACK's
// ?larf with a strided x (a row of A), loads one more strided element x[n*incx], which can lie up
// to a few elements past the end of a perfectly sized matrix buffer (valgrind on the non-ASan
// build shows the same invalid reads: "16 bytes after a block of size 896 alloc'd" for a 14x4
// complex<double> matrix in zgesdd). The value is never used. Under ASan's allocator a buffer that
// fills its chunk exactly and sits at the end of the mapped part of a size-class region is followed
// by unmapped memory, so this harmless over-read kills the process (SEGV in ?gemv_n, no redzone
// involved, nothing Simbody does wrong). The handler below maps a zero page when an *uninstrumented
// read* faults on the first page past a 64 KiB mapping step inside ASan's primary allocator space and
// restarts the instruction; everything else goes to ASan's own handler. Fix-ups are counted.
#if defined(VH_ASAN) || defined(__SANITIZE_ADDRESS__)
static struct sigaction g_prevSegv;
static volatile long g_overreadFixups = 0;
static void segvFixup(int sig, siginfo_t* si, void* ucv) {
    ucontext_t* uc = (ucontext_t*)ucv;
    const unsigned long long a = (unsigned long long)si->si_addr, err = (unsigned long long)uc->uc_mcontext.gregs[REG_ERR];
    const bool isWrite = err & 2, present = err & 1;
    if (!isWrite && !present && a >= 0x600000000000ULL && a < 0x640000000000ULL && (a & 0xFFFFULL) < 4096) {
        void* p = mmap((void*)(a & ~4095ULL), 4096, PROT_READ, MAP_PRIVATE | MAP_ANONYMOUS | MAP_FIXED, -1, 0);
        if (p != MAP_FAILED) { ++g_overreadFixups; return; }
    }
    if (g_prevSegv.sa_flags & SA_SIGINFO) { g_prevSegv.sa_sigaction(sig, si, ucv); return; }
    if (g_prevSegv.sa_handler != SIG_DFL && g_prevSegv.sa_handler != SIG_IGN) { g_prevSegv.sa_handler(sig); return; }
    signal(SIGSEGV, SIG_DFL); raise(SIGSEGV);
}
static void installOverreadFixup() {
    struct sigaction sa; memset(&sa, 0, sizeof sa);
    sa.sa_sigaction = segvFixup; sa.sa_flags = SA_SIGINFO | SA_NODEFER; sigemptyset(&sa.sa_mask);
    sigaction(SIGSEGV, &sa, &g_prevSegv);
}
static long overreadFixups() { return g_overreadFixups; }
#else
static void installOverreadFixup() {}
static long overreadFixups() { return 0; }
#endif

// ------------------------------------------------------------------ dispatch
template <class T> static void runTyped(Case& cs, int fact) {
    cs.et = ET<T>::nm();
    switch (fact) {
    case 0: cs.fact = "lu";    caseLU<T>(cs); break;
    case 1: cs.fact = "llt";   caseLLT<T>(cs); break;
    case 2: cs.fact = "qtz";   caseQTZ<T>(cs); break;
    case 3: cs.fact = "svd";   caseSVD<T>(cs); break;
    default: cs.fact = "eigen"; caseEigen<T>(cs); break;
    }
}

int main(int argc, char** argv) {
    vh::Args args = vh::parseArgs(argc, argv);
    vh::Ctx c(args);
    installOverreadFixup();
    long fixSeen = 0;
    const long onlyFact = args.getInt("fact", -1), onlyType = args.getInt("type", -1);
    return vh::runCases(c, [&](long i, vh::Rng& r) {
        // factorization and element type cycle deterministically so that every cell is forced
        int fact = (int)(i % 5), ty = (int)((i / 5) % 4);
        if (onlyFact >= 0) fact = (int)onlyFact;
        if (onlyType >= 0) ty = (int)onlyType;
        Case cs{c, r}; cs.idx = i;
        switch (ty) {
        case 0: runTyped<float>(cs, fact); break;
        case 1: runTyped<double>(cs, fact); break;
        case 2: runTyped<std::complex<float> >(cs, fact); break;
        default: runTyped<std::complex<double> >(cs, fact); break;
        }
        if (overreadFixups() != fixSeen) { c.obs("openblas-strided-overread-page-fixups", overreadFixups() - fixSeen); fixSeen = overreadFixups(); }
        if (c.wantSample() && i % 7 == 3) c.sample(cs.desc().set("case", i));
    });
}
