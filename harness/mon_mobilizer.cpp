// mon_mobilizer — mobilizer parameterisation and representation-independence monitors:
// C05, C06 (DESIGN §5).
//
// C05: every built-in mobilizer type x option cell is driven through setQ/setU at random
//   coordinates (moderate, large |q| up to 4*pi, unnormalised quaternions, coordinate
//   singularities for the forward maps) and the reported X_FM, V_FM, H_FM, X_GB, V_GB are
//   compared with the independent reference of common/mobilizer_ref.h (own rotation maths,
//   dual-number differentiation of the documented transform). setQToFit*/setUToFit* are
//   judged on targets generated *from the reference* (representable by construction).
// C06: metamorphic pairs (a) quaternion<->Euler State conversion, (b) Custom/FunctionBased
//   mirrors, (c) reversed mobilizer with parent/child roles swapped, (d) rigid relocation of
//   the whole model with respect to Ground.
//
// Legal-client preconditions (cases/sub-cases violating them are skipped with a reason):
//  * fits and all dynamics are judged away from coordinate singularities: |cos q1|>=0.2 for
//    body-fixed XYZ parametrisations (Gimbal, Bushing, CantileverFreeBeam, Universal's 2nd
//    angle, Euler-mode Ball/Free/Ellipsoid/LineOrientation/FreeLine), |sin zenith|>=0.2 and
//    |radius|>=0.2 for SphericalCoords, |q1|>=0.2 for BendStretch; mass matrix condition
//    estimate <= 1e7 for anything involving accelerations.
//  * fit targets are representable (generated from the reference at random coordinates);
//    fitting to non-representable targets is "best effort" by the documentation: not judged.
//  * mass properties valid by construction (point clouds), unconstrained trees.
#include "mobilizer_mirrors.h"
using namespace SimTK;
using namespace vh;
using namespace mref;

static const double E1 = 1e-9;
static const double PI = 3.14159265358979323846;

// ------------------------------------------------------------------------ small helpers
static double rotDiff(const Mat33& R, const M3<double>& Rr) { double m = 0; for (int i = 0; i < 3; ++i) for (int j = 0; j < 3; ++j) m = std::max(m, std::fabs(R(i, j) - Rr(i, j))); return m; }
static double vecDiff(const Vec3& a, const V3<double>& b) { double m = 0; for (int i = 0; i < 3; ++i) m = std::max(m, std::fabs(a[i] - b[i])); return m; }
static double vnorm(const V3<double>& a) { return std::sqrt(a[0] * a[0] + a[1] * a[1] + a[2] * a[2]); }
static double spMax(const SpatialVec& v) { double m = 0; for (int i = 0; i < 2; ++i) for (int j = 0; j < 3; ++j) m = std::max(m, std::fabs(v[i][j])); return m; }
static bool finiteT(const Transform& X) { for (int i = 0; i < 3; ++i) { if (!std::isfinite(X.p()[i])) return false; for (int j = 0; j < 3; ++j) if (!std::isfinite(X.R().asMat33()(i, j))) return false; } return true; }
static bool finiteSV(const SpatialVec& v) { for (int i = 0; i < 2; ++i) for (int j = 0; j < 3; ++j) if (!std::isfinite(v[i][j])) return false; return true; }
static Json jArr(const double* x, int n) { Json j = Json::arr(); for (int i = 0; i < n; ++i) j.push(Json(x[i])); return j; }
static Json jSV(const SpatialVec& v) { return Json::arr().push(jV3(v[0])).push(jV3(v[1])); }
static Json jKinX(const Kin& k) { Json j = Json::obj(); Json R = Json::arr(); for (int i = 0; i < 3; ++i) for (int jx = 0; jx < 3; ++jx) R.push(Json(k.R(i, jx))); j.set("R_rowmajor", R).set("p", jV3(toVec3(k.p))); return j; }
static Json jX(const Transform& X) { Json j = Json::obj(); Json R = Json::arr(); for (int i = 0; i < 3; ++i) for (int jx = 0; jx < 3; ++jx) R.push(Json(X.R().asMat33()(i, jx))); j.set("R_rowmajor", R).set("p", jV3(X.p())); return j; }
static Vector toVector(const double* x, int n) { Vector v(n); for (int i = 0; i < n; ++i) v[i] = x[i]; return v; }
static double condEstimate(const Matrix& M) {
    double maxd = 0; for (int i = 0; i < M.nrow(); ++i) maxd = std::max(maxd, std::fabs(M(i, i)));
    double minp = cholMinPivot(M);
    if (!(minp > 0)) return std::numeric_limits<double>::infinity();
    return maxd / minp;
}

// ------------------------------------------------------------------------ option grid
struct Cell { int type; bool rev; bool euler; int variant; };
static int nVariants(int type) {
    switch (type) { case MT_Screw: return 3; case MT_SphericalCoords: return 18; case MT_Ellipsoid: return 4; case MT_CantileverFreeBeam: return 2; default: return 1; }
}
static std::vector<Cell> makeCells(bool withWeld, bool allVariants) {
    std::vector<Cell> v;
    for (int t = 0; t < MT_Count; ++t) {
        if (t == MT_Weld) { if (withWeld) v.push_back(Cell{t, false, false, 0}); continue; }
        int nv = allVariants ? nVariants(t) : std::min(nVariants(t), 3);
        for (int var = 0; var < nv; ++var) for (int rev = 0; rev < 2; ++rev) for (int eu = 0; eu < (mobHasQuat(t) ? 2 : 1); ++eu)
            v.push_back(Cell{t, rev == 1, eu == 1, var});
    }
    return v;
}
// random parameters for a cell (pure function of the Rng)
static MobSpec fillSpec(const Cell& cl, Rng& r) {
    MobSpec m; m.type = cl.type; m.reversed = cl.rev; m.euler = cl.euler; m.variant = cl.variant;
    char b[96];
    switch (cl.type) {
    case MT_Screw:
        m.pitch = cl.variant == 0 ? 0.0 : (cl.variant == 1 ? 1 : -1) * r.uni(0.1, 0.8);
        m.optKey = cl.variant == 0 ? "pitch0" : cl.variant == 1 ? "pitch+" : "pitch-"; break;
    case MT_SphericalCoords:
        if (cl.variant == 0) { m.sphDefault = true; m.optKey = "default-ctor"; }
        else {
            m.sphDefault = false;
            int bits = cl.variant == 17 ? r.integer(1, 15) : cl.variant - 1;
            m.negAz = bits & 1; m.negZe = bits & 2; m.negRad = bits & 4; m.radialAxis = (bits & 8) ? 0 : 2;
            bool off = cl.variant != 17 && r.coin(0.8);
            m.az0 = off ? r.sym(1.5) : 0.0; m.ze0 = off ? r.sym(0.6) : 0.0;
            snprintf(b, sizeof b, "%s:s%c%c%c/%c", cl.variant == 17 ? "setters" : "ctor", m.negAz ? '-' : '+', m.negZe ? '-' : '+', m.negRad ? '-' : '+', m.radialAxis == 0 ? 'x' : 'z');
            m.optKey = b;
            if (cl.variant != 17) m.optKey += off ? "/off" : "/nooff";
        }
        break;
    case MT_Ellipsoid:
        if (cl.variant == 0) { double a = r.uni(0.3, 2); m.radii[0] = m.radii[1] = m.radii[2] = a; m.optKey = "sphere"; }
        else { for (int i = 0; i < 3; ++i) m.radii[i] = r.uni(0.3, 2); m.optKey = cl.variant == 1 ? "radii" : cl.variant == 2 ? "default-radii" : "setDefaultRadii"; }
        break;
    case MT_CantileverFreeBeam:
        m.length = cl.variant == 0 ? r.uni(0.3, 1.0) : r.uni(1.0, 2.5); m.optKey = cl.variant == 0 ? "L<1" : "L>=1"; break;
    default: break;
    }
    return m;
}
static std::string cellKey(const MobSpec& m) {
    std::string s = mobName(m.type);
    if (m.type != MT_Weld) s += m.reversed ? "/rev" : "/fwd";
    if (mobHasQuat(m.type)) s += m.euler ? "/euler" : "/quat";
    return s;
}
static std::string cellKeyOpt(const MobSpec& m) { return m.optKey.empty() ? cellKey(m) : cellKey(m) + "/" + m.optKey; }

// builds the mobilizer the way the variant says (special constructors / setters); may
// complete the spec (default radii are read back from the handle).
static MobilizedBody makeTested(MobilizedBody& P, const Transform& X_PF, const Body& body, const Transform& X_BM, MobSpec& m) {
    MobilizedBody::Direction dir = m.reversed ? MobilizedBody::Reverse : MobilizedBody::Forward;
    if (m.type == MT_Ellipsoid && m.variant >= 2) {
        MobilizedBody::Ellipsoid e(P, X_PF, body, X_BM, dir);
        if (m.variant == 3) e.setDefaultRadii(Vec3(m.radii[0], m.radii[1], m.radii[2]));
        Vec3 rr = e.getDefaultRadii();
        for (int i = 0; i < 3; ++i) m.radii[i] = rr[i];
        return e;
    }
    if (m.type == MT_SphericalCoords && m.variant == 17) {
        MobilizedBody::SphericalCoords sc(P, X_PF, body, X_BM, dir);
        sc.setRadialAxis(m.radialAxis == 0 ? CoordinateAxis(XAxis) : CoordinateAxis(ZAxis));
        sc.setNegateAzimuth(m.negAz); sc.setNegateZenith(m.negZe); sc.setNegateRadial(m.negRad);
        return sc;
    }
    return makeBuiltin(P, X_PF, body, X_BM, m);
}

// ------------------------------------------------------------------------ coordinate generators
enum Flavour { Moderate = 0, Large = 1, Singular = 2 };
static double genAngle(Rng& r, int fl) { return fl == Large ? r.sym(4 * PI) : r.sym(3.0); }
static double genCosGuarded(Rng& r, int fl) { for (;;) { double a = genAngle(r, fl); if (std::fabs(std::cos(a)) >= 0.2) return a; } }
// fills q (refNQ entries). Singular: on a coordinate singularity where the type has one.
static void genQ(const MobSpec& m, Rng& r, int fl, bool unnorm, double* q) {
    const int nq = refNQ(m);
    for (int i = 0; i < nq; ++i) q[i] = r.sym(2.0);
    auto xyz = [&](double* a) {
        a[0] = genAngle(r, fl); a[2] = genAngle(r, fl);
        a[1] = (fl == Singular) ? (r.coin() ? 1 : -1) * PI / 2 + 2 * PI * r.integer(-1, 1) : genCosGuarded(r, fl);
    };
    switch (m.type) {
    case MT_Pin: case MT_Screw: case MT_Cylinder: case MT_Planar: q[0] = genAngle(r, fl); break;
    case MT_BendStretch: q[0] = genAngle(r, fl); q[1] = (fl == Singular) ? 0.0 : (r.coin() ? 1 : -1) * r.uni(0.3, 2.0); break;
    case MT_Universal: q[0] = genAngle(r, fl); q[1] = (fl == Singular) ? (r.coin() ? 1 : -1) * PI / 2 : genCosGuarded(r, fl); break;
    case MT_Gimbal: case MT_Bushing: xyz(q); break;
    case MT_CantileverFreeBeam: xyz(q); if (fl == Moderate) { q[0] = r.sym(1.2); q[1] = r.sym(1.2); } break;
    case MT_SphericalCoords: {
        const double s1 = m.negZe ? -1 : 1;
        q[0] = genAngle(r, fl);
        q[2] = (r.coin() ? 1 : -1) * r.uni(0.3, 2.0);
        if (fl == Singular) { if (r.coin()) q[1] = s1 * ((r.coin() ? 0.0 : PI) - m.ze0); else { q[1] = genAngle(r, Moderate); q[2] = 0; } }
        else for (;;) { q[1] = genAngle(r, fl); if (std::fabs(std::sin(s1 * q[1] + m.ze0)) >= 0.2) break; }
        break; }
    case MT_Ball: case MT_Free: case MT_LineOrientation: case MT_FreeLine: case MT_Ellipsoid:
        if (m.euler) xyz(q);
        else {
            double e[4], n = 0;
            do { n = 0; for (int i = 0; i < 4; ++i) { e[i] = r.normal(); n += e[i] * e[i]; } } while (n < 0.01);
            n = std::sqrt(n);
            double sc = unnorm ? r.logUni(0.3, 3.0) : 1.0;
            for (int i = 0; i < 4; ++i) q[i] = e[i] / n * sc;
        }
        break;
    default: break;
    }
}
static void genU(const MobSpec& m, Rng& r, double* u, double scale = 2.0) { for (int i = 0; i < refNU(m); ++i) u[i] = r.sym(scale); }

// ======================================================================== C05
struct Rig {
    MultibodySystem sys; SimbodyMatterSubsystem matter; GeneralForceSubsystem forces;
    MobilizedBody parent, body, twin; bool hasParent = false, hasTwin = false;
    Transform X_PF, X_BM;
    Rig() : matter(sys), forces(sys) {}
};

// expected X_GB, V_GB composed (own maths) from the parent's reported motion, the frames and
// the reference X_FM, V_FM
static void composeGround(const Transform& X_GP, const SpatialVec& V_GP, const Transform& X_PF, const Transform& X_BM, const Kin& k,
                          M3<double>& R_GB, V3<double>& p_GB, V3<double>& w_GB, V3<double>& v_GB) {
    M3<double> R_GP = fromMat33(X_GP.R().asMat33()), R_PF = fromMat33(X_PF.R().asMat33()), R_BM = fromMat33(X_BM.R().asMat33());
    V3<double> p_GP = fromVec3(X_GP.p()), p_PF = fromVec3(X_PF.p()), p_BM = fromVec3(X_BM.p());
    V3<double> w_GP = fromVec3(V_GP[0]), v_GP = fromVec3(V_GP[1]);
    M3<double> R_GF = R_GP * R_PF, R_GM = R_GF * k.R;
    R_GB = R_GM * tr(R_BM);
    V3<double> rF = R_GP * p_PF, rM = R_GF * k.p, rB = -(R_GB * p_BM);   // Po->Fo, Fo->Mo, Mo->Bo in G
    p_GB = p_GP + rF + rM + rB;
    w_GB = w_GP + R_GF * k.w;
    V3<double> v_F = v_GP + cross(w_GP, rF);
    V3<double> v_M = v_F + cross(w_GP, rM) + R_GF * k.v;
    v_GB = v_M + cross(w_GB, rB);
}

static void checkC05(Ctx& c, long idx, Rng& r) {
    static const std::vector<Cell> CL = makeCells(true, true);
    const Cell cl = CL[idx % (long)CL.size()];
    const long round = idx / (long)CL.size();
    MobSpec spec = fillSpec(cl, r);
    const int fF = (int)(round % 3), fM = (int)((round / 3) % 3);
    c.setPhase("C05 build " + cellKeyOpt(spec));

    Rig g;
    g.hasParent = r.coin(0.5);
    if (g.hasParent) g.parent = MobilizedBody::Free(g.matter.updGround(), randFrame(r, 2), Body::Rigid(randMassProps(r)), randFrame(r, 2));
    else g.parent = g.matter.updGround();
    g.X_PF = randFrame(r, fF); g.X_BM = randFrame(r, fM);
    Body::Rigid binfo(randMassProps(r));
    g.body = makeTested(g.parent, g.X_PF, binfo, g.X_BM, spec);
    if (spec.reversed) {   // forward twin with the same definition, for the direct "reversed = inverse" relation
        MobSpec f = spec; f.reversed = false;
        g.twin = makeTested(g.parent, g.X_PF, binfo, g.X_BM, f); g.hasTwin = true;
    }
    State s = g.sys.realizeTopology();
    const bool eulerOpt = spec.euler || (!mobHasQuat(spec.type) && r.coin(0.2));   // the option must not matter for the other types
    if (eulerOpt) g.matter.setUseEulerAngles(s, true);
    g.sys.realizeModel(s);

    const std::string ck = cellKey(spec), cov = cellKeyOpt(spec) + "/F" + std::to_string(fF) + "M" + std::to_string(fM);
    const int nq = refNQ(spec), nu = refNU(spec);
    Json specJ = Json::obj().set("cell", cellKeyOpt(spec)).set("frames", std::string("F") + std::to_string(fF) + "M" + std::to_string(fM)).set("parent", g.hasParent ? "Free" : "Ground")
                     .set("pitch", spec.pitch).set("az0", spec.az0).set("ze0", spec.ze0).set("radii", jArr(spec.radii, 3)).set("length", spec.length);
    c.require("counts:" + ck, g.body.getNumQ(s) == nq && g.body.getNumU(s) == nu,
              [&] { return Json::obj().set("spec", specJ).set("nq", g.body.getNumQ(s)).set("nu", g.body.getNumU(s)).set("expected_nq", nq).set("expected_nu", nu); });
    if (g.body.getNumQ(s) != nq || g.body.getNumU(s) != nu) return;
    c.cover(cov + "|counts");

    const int NREP = 6;
    for (int rep = 0; rep < NREP; ++rep) {
        const int fl = (rep == 5) ? Singular : (rep == 1 || rep == 3) ? Large : Moderate;
        const bool unnorm = usesQuat(spec) && (rep == 1 || rep == 2);
        const char* flName = fl == Singular ? "singular" : fl == Large ? "large" : "moderate";
        double q[8], u[8];
        genQ(spec, r, fl, unnorm, q); genU(spec, r, u);
        if (g.hasParent) {
            double pq[8], pu[8]; MobSpec ps; ps.type = MT_Free; ps.euler = eulerOpt;
            genQ(ps, r, Moderate, false, pq); genU(ps, r, pu);
            g.parent.setQFromVector(s, toVector(pq, refNQ(ps))); g.parent.setUFromVector(s, toVector(pu, 6));
        }
        if (nq) g.body.setQFromVector(s, toVector(q, nq));
        if (nu) g.body.setUFromVector(s, toVector(u, nu));
        if (g.hasTwin) { if (nq) g.twin.setQFromVector(s, toVector(q, nq)); if (nu) g.twin.setUFromVector(s, toVector(u, nu)); }
        c.setPhase("C05 forward " + cellKeyOpt(spec) + " " + flName);
        g.sys.realize(s, Stage::Velocity);

        const Kin k = refKin(spec, q, u);
        const Transform X = g.body.getMobilizerTransform(s);
        const SpatialVec V = g.body.getMobilizerVelocity(s);
        auto W = [&](const char* what) { return [&, what]() {
            return Json::obj().set("spec", specJ).set("what", what).set("flavour", flName).set("q", jArr(q, nq)).set("u", jArr(u, nu))
                .set("X_FM_reported", jX(X)).set("X_FM_reference", jKinX(k)).set("V_FM_reported", jSV(V)).set("V_FM_reference", Json::arr().push(jV3(toVec3(k.w))).push(jV3(toVec3(k.v)))); }; };
        c.require("finite:" + ck, finiteT(X) && finiteSV(V), W("NaN/Inf in reported mobilizer transform/velocity"));
        const double pscale = 1 + vnorm(k.p), vscale = 1 + vnorm(k.w) + vnorm(k.v);
        c.check("transform:" + ck, std::max(rotDiff(X.R().asMat33(), k.R), vecDiff(X.p(), k.p) / pscale), 1e-10, W("getMobilizerTransform != documented X_FM(q)"));
        c.check("velocity:" + ck, std::max(vecDiff(V[0], k.w), vecDiff(V[1], k.v)) / vscale, 1e-10, W("getMobilizerVelocity != documented V_FM(q,u)"));
        c.cover(cov + "|transform/" + flName); c.cover(cov + "|velocity/" + flName);
        if (unnorm) c.cover(cov + "|transform/unnormalised-quaternion");
        if (spec.type == MT_Ellipsoid) {   // the documented clause: Mo stays on the ellipsoid surface (in the as-defined F)
            Transform X0 = spec.reversed ? Transform(~X) : X;
            double e = 0; for (int i = 0; i < 3; ++i) e += (X0.p()[i] / spec.radii[i]) * (X0.p()[i] / spec.radii[i]);
            c.check("ellipsoid-surface:" + ck, std::fabs(e - 1), 1e-10, W("Ellipsoid: M origin not on the ellipsoid surface"));
        }
        // hinge matrix columns: V_FM = H_FM u
        { double herr = 0;
          for (int j = 0; j < nu; ++j) {
              double e[8] = {0, 0, 0, 0, 0, 0, 0, 0}; e[j] = 1;
              Kin kj = refKin(spec, q, e);
              SpatialVec h = g.body.getH_FMCol(s, MobilizerUIndex(j));
              herr = std::max(herr, std::max(vecDiff(h[0], kj.w), vecDiff(h[1], kj.v)) / (1 + vnorm(kj.w) + vnorm(kj.v)));
          }
          if (nu) { c.check("H_FM:" + ck, herr, 1e-10, W("getH_FMCol(j) != documented V_FM(q,e_j)")); c.cover(cov + "|H_FM"); } }
        // composition to Ground
        { const Transform X_GP = g.parent.getBodyTransform(s); const SpatialVec V_GP = g.parent.getBodyVelocity(s);
          M3<double> R_GB; V3<double> p_GB, w_GB, v_GB;
          composeGround(X_GP, V_GP, g.X_PF, g.X_BM, k, R_GB, p_GB, w_GB, v_GB);
          const Transform X_GB = g.body.getBodyTransform(s); const SpatialVec V_GB = g.body.getBodyVelocity(s);
          c.check("compose-pose:" + ck, std::max(rotDiff(X_GB.R().asMat33(), R_GB), vecDiff(X_GB.p(), p_GB) / (1 + vnorm(p_GB))), 1e-10, W("getBodyTransform != X_GP X_PF X_FM(q) X_MB"));
          c.check("compose-velocity:" + ck, std::max(vecDiff(V_GB[0], w_GB), vecDiff(V_GB[1], v_GB)) / (1 + vnorm(w_GB) + vnorm(v_GB)), 1e-10, W("getBodyVelocity != composition of V_GP and V_FM(q,u)"));
          c.cover(cov + "|compose"); }
        // reversed mobilizer = inverse relative motion of the forward one for the same q,u (library vs library)
        if (g.hasTwin) {
            const Transform Xf = g.twin.getMobilizerTransform(s); const SpatialVec Vf = g.twin.getMobilizerVelocity(s);
            Kin kf; kf.R = fromMat33(Xf.R().asMat33()); kf.p = fromVec3(Xf.p()); kf.w = fromVec3(Vf[0]); kf.v = fromVec3(Vf[1]);
            Kin ki = inverseKin(kf);
            c.check("reverse-inverse-pose:" + ck, std::max(rotDiff(X.R().asMat33(), ki.R), vecDiff(X.p(), ki.p) / pscale), 1e-10, W("reversed X_FM != inverse of forward X_FM for the same q"));
            c.check("reverse-inverse-velocity:" + ck, std::max(vecDiff(V[0], ki.w), vecDiff(V[1], ki.v)) / vscale, 1e-10, W("reversed V_FM != inverse relative motion of forward V_FM for the same q,u"));
            c.cover(cov + "|reverse-inverse");
        }
        if (fl == Singular || nq == 0) { if (fl == Singular) c.obs("forward-only-at-singularity"); continue; }

        // ---------------- fits: targets generated from the reference at (qt,ut)
        // Keys carry an input class where a deviation is confined to one (root cause -> key).
        double qt[8], ut[8], q0[8], u0[8];
        genQ(spec, r, fl, false, qt); genU(spec, r, ut);
        const bool zeroStart = (rep % 2 == 1);
        if (zeroStart) { for (int i = 0; i < 8; ++i) q0[i] = 0; if (usesQuat(spec)) q0[0] = 1; } else genQ(spec, r, Moderate, false, q0);
        genU(spec, r, u0);
        const Kin kt = refKin(spec, qt, ut);
        const Transform Xt = asTransform(kt.R, kt.p);
        const double tp = 1 + vnorm(kt.p), tv = 1 + vnorm(kt.w) + vnorm(kt.v);
        Transform Xa, Xb, Xc; SpatialVec Va(Vec3(0), Vec3(0)), Vb(Vec3(0), Vec3(0)), Vc(Vec3(0), Vec3(0)), Vd(Vec3(0), Vec3(0));
        auto WF = [&](const char* what) { return [&, what]() {
            return Json::obj().set("spec", specJ).set("what", what).set("flavour", flName).set("q_target", jArr(qt, nq)).set("u_target", jArr(ut, nu))
                .set("q_start", jArr(q0, nq)).set("u_start", jArr(u0, nu)).set("X_FM_target", jKinX(kt)).set("V_FM_target", Json::arr().push(jV3(toVec3(kt.w))).push(jV3(toVec3(kt.v))))
                .set("X_after_fitTransform", jX(Xa)).set("X_after_fitRotation", jX(Xb)).set("X_after_fitTranslation", jX(Xc))
                .set("V_after_fitVelocity", jSV(Va)).set("V_after_fitAngular", jSV(Vb)).set("V_after_fitLinear", jSV(Vc)).set("V_after_fitLinear_keeping_angular", jSV(Vd)); }; };
        const double FT = 1e-9;
        const bool negStretch = spec.type == MT_BendStretch && qt[1] < 0;
        const bool ell = spec.type == MT_Ellipsoid;
        const bool nonSpherical = ell && !(spec.radii[0] == spec.radii[1] && spec.radii[1] == spec.radii[2]);
        State t = s;
        // (1) full transform
        c.setPhase("C05 setQToFitTransform " + cellKeyOpt(spec));
        g.body.setQFromVector(t, toVector(q0, nq));
        g.body.setQToFitTransform(t, Xt);
        g.sys.realize(t, Stage::Position); Xa = g.body.getMobilizerTransform(t);
        c.check("fitQ-transform:" + ck + (negStretch ? ":negative-stretch" : ""), std::max(rotDiff(Xa.R().asMat33(), kt.R), vecDiff(Xa.p(), kt.p) / tp), FT,
                WF("setQToFitTransform(representable X_FM) does not reproduce it"));
        c.cover(cov + "|fitQ-transform");
        // (2) rotation only
        c.setPhase("C05 setQToFitRotation " + cellKeyOpt(spec));
        g.body.setQFromVector(t, toVector(q0, nq));
        g.body.setQToFitRotation(t, Xt.R());
        g.sys.realize(t, Stage::Position); Xb = g.body.getMobilizerTransform(t);
        c.check("fitQ-rotation:" + ck, rotDiff(Xb.R().asMat33(), kt.R), FT, WF("setQToFitRotation(representable R_FM) does not reproduce it"));
        c.cover(cov + "|fitQ-rotation");
        // (3) translation only. Precondition: the target is representable *without changing the
        // orientation coordinates* (the documentation lets a mobilizer use rotations to help but does
        // not require it, and a reversed mobilizer's p_FM depends on the orientation): the start state
        // shares its rotational coordinates with the target state.
        c.setPhase("C05 setQToFitTranslation " + cellKeyOpt(spec));
        { double qs[8]; for (int i = 0; i < nq; ++i) qs[i] = q0[i];
          for (int i = 0; i < refNRotQ(spec); ++i) qs[i] = qt[i];
          g.body.setQFromVector(t, toVector(qs, nq)); }
        g.body.setQToFitTranslation(t, Xt.p());
        g.sys.realize(t, Stage::Position); Xc = g.body.getMobilizerTransform(t);
        c.check("fitQ-translation:" + ck + (negStretch ? ":negative-stretch" : ""), vecDiff(Xc.p(), kt.p) / tp, FT, WF("setQToFitTranslation(representable p_FM) does not reproduce it"));
        c.cover(cov + "|fitQ-translation");

        // velocities: q fixed at the target coordinates
        g.body.setQFromVector(t, toVector(qt, nq));
        c.setPhase("C05 setUToFitVelocity " + cellKeyOpt(spec));
        g.body.setUFromVector(t, toVector(u0, nu));
        g.sys.realize(t, Stage::Position);
        g.body.setUToFitVelocity(t, SpatialVec(toVec3(kt.w), toVec3(kt.v)));
        g.sys.realize(t, Stage::Velocity); Va = g.body.getMobilizerVelocity(t);
        c.check("fitU-velocity:" + ck + (nonSpherical ? ":non-spherical" : ""),
                std::max(vecDiff(Va[0], kt.w), vecDiff(Va[1], kt.v)) / tv, FT, WF("setUToFitVelocity(representable V_FM) does not reproduce it"));
        c.cover(cov + "|fitU-velocity");
        c.setPhase("C05 setUToFitAngularVelocity " + cellKeyOpt(spec));
        g.body.setUFromVector(t, toVector(u0, nu));
        g.sys.realize(t, Stage::Position);
        g.body.setUToFitAngularVelocity(t, toVec3(kt.w));
        g.sys.realize(t, Stage::Velocity); Vb = g.body.getMobilizerVelocity(t);
        c.check("fitU-angular:" + ck, vecDiff(Vb[0], kt.w) / tv, FT, WF("setUToFitAngularVelocity(representable w_FM) does not reproduce it"));
        c.cover(cov + "|fitU-angular");
        // linear only. Precondition as for translations: representable without changing the rotational
        // speeds (start shares them with the target). A reversed mobilizer's v_FM depends on the relative
        // angular velocity: the plain key judges it with zero rotational speeds, a second request keeps
        // non-zero ones (one root-cause key, judged only when the first passed).
        c.setPhase("C05 setUToFitLinearVelocity " + cellKeyOpt(spec));
        const int nRotU = std::min(nu, mobHasQuat(spec.type) ? ((spec.type == MT_LineOrientation || spec.type == MT_FreeLine) ? 2 : 3) : refNRotQ(spec));
        double us[8], utl[8];
        for (int i = 0; i < nu; ++i) { us[i] = u0[i]; utl[i] = ut[i]; }
        for (int i = 0; i < nRotU; ++i) { us[i] = spec.reversed ? 0.0 : ut[i]; if (spec.reversed) utl[i] = 0.0; }
        const Kin ktl = refKin(spec, qt, utl);
        g.body.setUFromVector(t, toVector(us, nu));
        g.sys.realize(t, Stage::Position);
        g.body.setUToFitLinearVelocity(t, toVec3(ktl.v));
        g.sys.realize(t, Stage::Velocity); Vc = g.body.getMobilizerVelocity(t);
        const bool linOk = c.check("fitU-linear:" + ck + (nonSpherical ? ":non-spherical" : ""), vecDiff(Vc[1], ktl.v) / tv, FT,
                                   [&] { return WF("setUToFitLinearVelocity(representable v_FM) does not reproduce it")().set("u_target_linear_test", jArr(utl, nu)).set("u_start_linear_test", jArr(us, nu)); });
        c.cover(cov + "|fitU-linear");
        if (spec.reversed && linOk) {
            for (int i = 0; i < nRotU; ++i) us[i] = ut[i];
            g.body.setUFromVector(t, toVector(us, nu));
            g.sys.realize(t, Stage::Position);
            g.body.setUToFitLinearVelocity(t, toVec3(kt.v));
            g.sys.realize(t, Stage::Velocity); Vd = g.body.getMobilizerVelocity(t);
            c.check("fitU-linear-keeping-angular-velocity:reversed-mobilizer", vecDiff(Vd[1], kt.v) / tv, FT,
                    WF("reversed mobilizer: setUToFitLinearVelocity(representable v_FM) ignores the current relative angular velocity"));
            c.cover(cov + "|fitU-linear/keep-angular");
        }
        if (rep == 0 && c.wantSample()) c.sample(Json::obj().set("spec", specJ).set("q", jArr(q, nq)).set("u", jArr(u, nu)).set("X_FM", jX(X)).set("V_FM", jSV(V)));
    }
}

// ======================================================================== C06
#include <sys/wait.h>
#include <array>
struct TNode {
    MobSpec spec; int parent = -1; int fF = 0, fM = 0; Transform X_PF, X_BM; MassProperties mp;
    int route = RouteBuiltin; std::vector<int> perm;
};
struct TreeDesc {
    std::vector<TNode> nodes; bool euler = false;
    std::string shortStr() const {
        std::string s = euler ? "E:" : "Q:";
        for (auto& n : nodes) { char b[160]; snprintf(b, sizeof b, "%s%s%s%d%d<%d ", cellKeyOpt(n.spec).c_str(), n.route ? "@" : "", n.route ? routeName(n.route) : "", n.fF, n.fM, n.parent); s += b; }
        return s;
    }
};
static Cell randomCell(Rng& r, bool euler, bool allowWeld) {
    Cell cl;
    cl.type = r.integer(0, allowWeld ? MT_Count - 1 : MT_Count - 2);
    cl.rev = cl.type != MT_Weld && r.coin(0.35);
    cl.euler = euler && mobHasQuat(cl.type);
    cl.variant = r.integer(0, nVariants(cl.type) - 1);
    return cl;
}
// Ellipsoid "default radii" variant needs the handle to know its radii: use the explicit ones in trees
static MobSpec treeSpec(Cell cl, Rng& r) { if (cl.type == MT_Ellipsoid && cl.variant == 2) cl.variant = 1; return fillSpec(cl, r); }
static TreeDesc makeTreeDesc(Rng& r, const Cell* forced, bool euler, int minB, int maxB) {
    TreeDesc d; d.euler = euler;
    const int nb = r.integer(minB, maxB), shape = r.integer(0, 2);
    for (int k = 0; k < nb; ++k) {
        TNode n;
        Cell cl = (k == 0 && forced) ? *forced : randomCell(r, euler, true);
        cl.euler = euler && mobHasQuat(cl.type);
        n.spec = treeSpec(cl, r);
        n.fF = r.integer(0, 2); n.fM = r.integer(0, 2);
        n.X_PF = randFrame(r, n.fF); n.X_BM = randFrame(r, n.fM);
        n.mp = randMassProps(r, r.coin(0.15));
        if (k == 0) n.parent = -1; else if (shape == 0) n.parent = k - 1; else if (shape == 1) n.parent = r.coin(0.7) ? 0 : -1; else n.parent = r.integer(-1, k - 1);
        d.nodes.push_back(n);
    }
    return d;
}
typedef std::array<double, 8> Arr8;
struct TreeState { std::vector<Arr8> q, u, f; Vector_<SpatialVec> F; };   // per node coordinates/speeds/mobility forces; body forces in G
static TreeState randomTreeState(const TreeDesc& d, Rng& r, bool zeroU) {
    TreeState ts; const int n = (int)d.nodes.size();
    ts.q.resize(n); ts.u.resize(n); ts.f.resize(n); ts.F.resize(n + 1); ts.F[0] = SpatialVec(Vec3(0), Vec3(0));
    for (int k = 0; k < n; ++k) {
        ts.q[k].fill(0); ts.u[k].fill(0); ts.f[k].fill(0);
        genQ(d.nodes[k].spec, r, Moderate, false, ts.q[k].data());
        if (!zeroU) genU(d.nodes[k].spec, r, ts.u[k].data());
        genU(d.nodes[k].spec, r, ts.f[k].data(), 4.0);
        ts.F[k + 1] = SpatialVec(randVec3(r, 4), randVec3(r, 4));
    }
    return ts;
}
struct Tree {
    MultibodySystem sys; SimbodyMatterSubsystem matter; GeneralForceSubsystem forces;
    std::unique_ptr<Force::DiscreteForces> disc;   // handle only; the element is owned by the subsystem
    std::vector<MobilizedBody> bodies; TreeDesc desc;
    Tree() : matter(sys), forces(sys) {}
    Tree(const Tree&) = delete;
    void build(const TreeDesc& d, const Transform* relocate = nullptr, const Vec3* gravity = nullptr) {
        desc = d;
        for (size_t k = 0; k < d.nodes.size(); ++k) {
            const TNode& n = d.nodes[k];
            MobilizedBody& P = n.parent < 0 ? (MobilizedBody&)matter.updGround() : bodies[n.parent];
            Transform X_PF = (relocate && n.parent < 0) ? (*relocate) * n.X_PF : n.X_PF;
            Body::Rigid body(n.mp);
            MobSpec sp = n.spec;
            bodies.push_back(n.route == RouteBuiltin ? makeTested(P, X_PF, body, n.X_BM, sp) : makeByRoute(matter, P, X_PF, body, n.X_BM, sp, n.route, n.perm));
        }
        disc.reset(new Force::DiscreteForces(forces, matter));
        if (gravity) Force::UniformGravity(forces, matter, *gravity);
    }
    State init() { State s = sys.realizeTopology(); if (desc.euler) matter.setUseEulerAngles(s, true); sys.realizeModel(s); return s; }
    // node coordinate -> mobilizer coordinate (permuted mirrors use another coordinate order)
    Vector mapped(int k, const Arr8& a, int n) const {
        Vector v(n); const TNode& nd = desc.nodes[k];
        for (int i = 0; i < n; ++i) v[(nd.route == RouteFunctionPermuted) ? nd.perm[i] : i] = a[i];
        return v;
    }
    void setState(State& s, const TreeState& ts, bool withForces) const {
        for (size_t k = 0; k < bodies.size(); ++k) {
            const MobSpec& m = desc.nodes[k].spec; const int nq = refNQ(m), nu = refNU(m);
            if (nq) bodies[k].setQFromVector(s, mapped((int)k, ts.q[k], nq));
            if (nu) bodies[k].setUFromVector(s, mapped((int)k, ts.u[k], nu));
        }
        if (withForces) setForces(s, ts);
    }
    void setForces(State& s, const TreeState& ts, const Rotation* R = nullptr) const {
        disc->clearAllForces(s);
        for (size_t k = 0; k < bodies.size(); ++k) {
            const MobSpec& m = desc.nodes[k].spec; const int nu = refNU(m);
            Vector f = mapped((int)k, ts.f[k], nu);
            for (int j = 0; j < nu; ++j) disc->setOneMobilityForce(s, bodies[k], MobilizerUIndex(j), f[j]);
            SpatialVec F = ts.F[k + 1]; if (R) F = SpatialVec((*R) * F[0], (*R) * F[1]);
            disc->setOneBodyForce(s, bodies[k], F);
        }
    }
    // mobilizer vector -> node order
    Arr8 unmapped(int k, const Vector& v) const {
        Arr8 a; a.fill(0); const TNode& nd = desc.nodes[k];
        for (int i = 0; i < v.size(); ++i) a[i] = v[(nd.route == RouteFunctionPermuted) ? nd.perm[i] : i];
        return a;
    }
};
struct Phys {
    std::vector<Transform> X; std::vector<SpatialVec> V, A, RM; std::vector<Arr8> udot, qdot, qdotdot; double ke = 0, cond = 0; bool finite = true;
};
static Phys collect(const Tree& t, State& s, bool accel) {
    Phys p; const int nb = (int)t.bodies.size();
    t.sys.realize(s, Stage::Velocity);
    if (s.getNU() > 0) { Matrix M; t.matter.calcM(s, M); p.cond = condEstimate(M); } else p.cond = 1;
    p.ke = t.matter.calcKineticEnergy(s);
    if (accel) t.sys.realize(s, Stage::Acceleration);
    Vector_<SpatialVec> RM; if (accel) t.matter.calcMobilizerReactionForces(s, RM);
    for (int k = 0; k < nb; ++k) {
        const MobilizedBody& b = t.bodies[k];
        p.X.push_back(b.getBodyTransform(s)); p.V.push_back(b.getBodyVelocity(s));
        p.finite = p.finite && finiteT(p.X.back()) && finiteSV(p.V.back());
        p.qdot.push_back(t.unmapped(k, b.getQDotAsVector(s)));
        if (accel) {
            p.A.push_back(b.getBodyAcceleration(s)); p.RM.push_back(RM[b.getMobilizedBodyIndex()]);
            p.udot.push_back(t.unmapped(k, b.getUDotAsVector(s))); p.qdotdot.push_back(t.unmapped(k, b.getQDotDotAsVector(s)));
            p.finite = p.finite && finiteSV(p.A.back()) && finiteSV(p.RM.back());
        }
    }
    return p;
}
static SpatialVec rotSV(const Rotation& R, const SpatialVec& v) { return SpatialVec(R * v[0], R * v[1]); }
static double arrDiff(const Arr8& a, const Arr8& b) { double m = 0; for (int i = 0; i < 8; ++i) m = std::max(m, std::fabs(a[i] - b[i])); return m; }
static double arrMax(const Arr8& a) { double m = 0; for (int i = 0; i < 8; ++i) m = std::max(m, std::fabs(a[i])); return m; }

// Compare physical quantities of tree B against X o (tree A). Bodies are visited parents-first
// and only the first failing body is keyed (attribute, then key). keyOf(k) names node k.
// what: bit 1 poses+velocities, bit 2 accelerations/udot/reactions, bit 4 qdot/qdotdot
static void comparePhys(Ctx& c, const std::string& rel, const TreeDesc& d, const Phys& a, const Phys& b, const Transform& X, int what,
                        const std::function<std::string(int)>& keyOf, const std::function<Json()>& wit) {
    const int nb = (int)d.nodes.size(); const Rotation& R = X.R();
    const double tolc = 1e-12 * std::max(a.cond, b.cond) + 1e-9;
    double vscale = 1, ascale = 1, fscale = 1;
    for (int k = 0; k < nb; ++k) { vscale = std::max(vscale, spMax(a.V[k])); if (what & 2) { ascale = std::max(ascale, spMax(a.A[k])); fscale = std::max(fscale, spMax(a.RM[k])); } }
    ascale = std::max(ascale, vscale * vscale);
    std::vector<char> bad(nb, 0);
    for (int k = 0; k < nb; ++k) {
        const int p = d.nodes[k].parent;
        if (p >= 0 && bad[p]) { bad[k] = 1; c.obs("descendant-of-failing-body-not-judged"); continue; }
        const std::string nk = keyOf(k);
        auto W = [&, k]() { return wit().set("body", k).set("node", cellKeyOpt(d.nodes[k].spec)); };
        // one key per body: the first quantity (in causal order) that differs
        bool ok = true;
        auto J = [&](const char* qty, double resid, double tol) { if (!ok) { c.obs("later-quantity-of-failing-body-not-judged"); return; } ok = c.check(rel + ":" + qty + ":" + nk, resid, tol, W); };
        if (what & 1) {
            Transform Xe = X * a.X[k];
            J("pose", std::max(rotDiff(b.X[k].R().asMat33(), fromMat33(Xe.R().asMat33())), (b.X[k].p() - Xe.p()).norm() / (1 + Xe.p().norm())), 1e-10);
            J("velocity", spMax(b.V[k] - rotSV(R, a.V[k])) / vscale, 1e-10);
        }
        if (what & 4) J("qdot", arrDiff(a.qdot[k], b.qdot[k]) / (1 + arrMax(a.qdot[k])), 1e-10);
        if (what & 2) {
            J("udot", arrDiff(a.udot[k], b.udot[k]) / (ascale + arrMax(a.udot[k])), tolc);
            J("acceleration", spMax(b.A[k] - rotSV(R, a.A[k])) / ascale, tolc);
            if (what & 4) J("qdotdot", arrDiff(a.qdotdot[k], b.qdotdot[k]) / (ascale + arrMax(a.qdotdot[k])), tolc);
            J("reaction", spMax(b.RM[k] - rotSV(R, a.RM[k])) / (fscale + ascale), tolc);
        }
        if (!ok) bad[k] = 1;
    }
    c.check(rel + ":kinetic-energy", std::fabs(a.ke - b.ke) / (1 + std::fabs(a.ke)), 1e-10, wit);
}

// run f in a forked child; returns the wait status (the child must not print)
static int runInChild(const std::function<void()>& f) {
    fflush(stdout); fflush(stderr);
    pid_t pid = fork();
    if (pid < 0) return -1;
    if (pid == 0) { vh::g_crashLine[0] = 0; f(); _exit(0); }
    int st = 0; waitpid(pid, &st, 0); return st;
}

// ------------------------------------------------------------------------ (a) quaternion <-> Euler conversion
static void checkConvert(Ctx& c, long ci, Rng& r) {
    static const std::vector<Cell> CL = makeCells(false, false);
    // quaternion-capable types get 3 of 4 slots of the forced cycle
    static std::vector<Cell> QL; if (QL.empty()) for (auto& x : CL) if (mobHasQuat(x.type) && !x.euler) QL.push_back(x);
    Cell forced = (ci % 4 == 3) ? CL[(ci / 4) % (long)CL.size()] : QL[(ci - ci / 4) % (long)QL.size()];
    const bool euler = (ci / 2) % 2 == 1;          // direction: false = quaternion state converted to Euler
    forced.euler = euler && mobHasQuat(forced.type);
    TreeDesc d = makeTreeDesc(r, &forced, euler, 1, 5);
    const char* dir = euler ? "toQuaternions" : "toEulerAngles";
    if (r.coin(0.25)) for (auto& n : d.nodes) if (mobHasQuat(n.spec.type) && r.coin(0.5)) n.route = RouteCustom;   // RBNodeCustom conversion route
    c.setPhase(std::string("C06 convert build ") + d.shortStr());
    Tree t; Vec3 grav = randVec3(r, 9.8); const bool withG = r.coin();
    t.build(d, nullptr, withG ? &grav : nullptr);
    State s = t.init();
    TreeState ts = randomTreeState(d, r, ci % 7 == 6);
    t.setState(s, ts, true);
    const double time0 = r.uni(0, 5); s.setTime(time0);
    c.setPhase(std::string("C06 convert realize input ") + d.shortStr());
    t.sys.realize(s, Stage::Velocity);
    auto wit = [&]() { return Json::obj().set("model", d.shortStr()).set("direction", dir).set("q", jV(s.getQ())).set("u", jV(s.getU())); };
    auto nodeKey = [&](int k) { return cellKey(d.nodes[k].spec) + (d.nodes[k].route ? std::string("@") + routeName(d.nodes[k].route) : std::string()); };

    // which mobilizer owns the last q slots?
    int last = -1; for (size_t k = 0; k < t.bodies.size(); ++k) if (refNQ(d.nodes[k].spec) > 0) last = (int)k;
    const bool risky = last >= 0 && d.nodes[last].spec.type == MT_LineOrientation && d.nodes[last].route == RouteBuiltin;
    if (risky) {
        // the conversion is known to have written past the q Vector in this configuration: run it in a
        // child process first so that a sanitizer abort is classified instead of killing the worker
        c.setPhase(std::string("C06 convert child ") + d.shortStr());
        int st = runInChild([&] { State o1, o2; if (euler) { t.matter.convertToQuaternions(s, o1); t.matter.convertToEulerAngles(o1, o2); } else { t.matter.convertToEulerAngles(s, o1); t.matter.convertToQuaternions(o1, o2); } });
        c.cover(std::string("convert/") + dir + "/LineOrientation-last-mobilizer");
        if (!c.require("convert:memory-error:LineOrientation-last-mobilizer", st != -1 && WIFEXITED(st) && WEXITSTATUS(st) == 0,
                       [&] { return wit().set("what", "conversion aborted in a child process (sanitizer report or signal)").set("wait_status", st); })) return;
    }
    c.setPhase(std::string("C06 convert ") + dir + " " + d.shortStr());
    State out;
    if (euler) t.matter.convertToQuaternions(s, out); else t.matter.convertToEulerAngles(s, out);
    c.require(std::string("convert:mode-not-switched:") + dir, t.matter.getUseEulerAngles(out) == !euler, wit);
    c.check("convert:time", std::fabs(out.getTime() - time0), 0, wit);
    // documented: "All continuous and discrete State variables will be copied"
    bool uLost = false;
    if (!c.require("convert:speeds-size", out.getNU() == s.getNU(), wit)) return;
    { double du = s.getNU() ? vmaxabs(out.getU() - s.getU()) : 0;
      uLost = !c.check("convert:speeds-lost", du, 1e-14 * (1 + vmaxabs(s.getU()) * (s.getNU() ? 1 : 0)), [&] { return wit().set("u_out", jV(out.getU())); }); }
    { double df = vmaxabs(t.disc->getAllMobilityForces(out) - t.disc->getAllMobilityForces(s)), dF = 0;
      const Vector_<SpatialVec>& Fo = t.disc->getAllBodyForces(out); const Vector_<SpatialVec>& Fi = t.disc->getAllBodyForces(s);
      bool sizes = Fo.size() == Fi.size(); if (sizes) for (int i = 0; i < Fi.size(); ++i) dF = std::max(dF, spMax(Fo[i] - Fi[i]));
      c.require("convert:discrete-variables-lost", sizes && df == 0 && dF == 0, wit); }
    // documented coordinate counts in the new mode
    { bool ok = true; for (size_t k = 0; k < t.bodies.size(); ++k) { MobSpec m = d.nodes[k].spec; m.euler = !euler && mobHasQuat(m.type); ok = ok && t.bodies[k].getNumQ(out) == refNQ(m); }
      c.require(std::string("convert:coordinate-counts:") + dir, ok, wit); }
    // guard: the Euler-side state must be away from the singularity
    { const State& es = euler ? s : out; bool okE = true;
      for (size_t k = 0; k < t.bodies.size(); ++k) if (mobHasQuat(d.nodes[k].spec.type)) { Vector q = t.bodies[k].getQAsVector(es); if (std::fabs(std::cos(q[1])) < 0.2) okE = false; }
      if (!okE) { c.skip("euler-singularity"); return; } }
    if (uLost) { out.updU() = s.getU(); c.obs("u-repaired-after-loss"); }
    Phys pa = collect(t, s, false), pb = collect(t, out, false);
    if (!c.require("convert:finite", pa.finite && pb.finite, wit)) return;
    comparePhys(c, std::string("convert:") + dir, d, pa, pb, Transform(), 1, nodeKey, wit);
    for (size_t k = 0; k < d.nodes.size(); ++k) c.cover(std::string("convert/") + dir + "/" + nodeKey((int)k));
    if (pa.cond <= 1e7) {
        t.setForces(s, ts); t.setForces(out, ts);
        Phys qa = collect(t, s, true), qb = collect(t, out, true);
        if (c.require("convert:finite-acceleration", qa.finite && qb.finite, wit)) comparePhys(c, std::string("convert:") + dir, d, qa, qb, Transform(), 2, nodeKey, wit);
    } else c.skip("ill-conditioned-M");
    // and back
    {
        c.setPhase(std::string("C06 convert back ") + d.shortStr());
        State back;
        if (euler) t.matter.convertToEulerAngles(out, back); else t.matter.convertToQuaternions(out, back);
        c.require("convert:roundtrip-mode", t.matter.getUseEulerAngles(back) == euler, wit);
        double dq = 0;
        for (size_t k = 0; k < t.bodies.size(); ++k) {
            Vector q1 = t.bodies[k].getQAsVector(s), q2 = t.bodies[k].getQAsVector(back);
            if (q1.size() != q2.size()) { dq = std::numeric_limits<double>::infinity(); break; }
            if (!q1.size()) continue;
            double e1 = vmaxabs(q1 - q2);
            if (mobHasQuat(d.nodes[k].spec.type)) {
                if (!euler) { Vector q3 = q2; for (int i = 0; i < 4; ++i) q3[i] = -q3[i]; e1 = std::min(e1, vmaxabs(q1 - q3)); }   // q and -q are the same rotation
                else {   // Euler angles: the same rotation has several angle triples; compare the rotations (own maths) and the rest of q
                    M3<double> Ra = Rxyz(q1[0], q1[1], q1[2]), Rb = Rxyz(q2[0], q2[1], q2[2]);
                    e1 = rotDiff(toMat33(Ra), Rb);
                    for (int i = 3; i < q1.size(); ++i) e1 = std::max(e1, std::fabs(q1[i] - q2[i])); }
            }
            dq = std::max(dq, e1);
        }
        c.check(std::string("convert:roundtrip-q:") + (euler ? "euler-quat-euler" : "quat-euler-quat"), dq, 1e-9, [&] { return wit().set("q_back", jV(back.getQ())); });
        c.check("convert:speeds-lost", s.getNU() ? vmaxabs(back.getU() - out.getU()) : 0, 1e-14 * (1 + (s.getNU() ? vmaxabs(s.getU()) : 0)), [&] { return wit().set("what", "converting back").set("u_back", jV(back.getU())); });
    }
    if (c.wantSample()) c.sample(Json::obj().set("relation", "convert").set("model", d.shortStr()).set("direction", dir).set("q_in", jV(s.getQ())).set("q_out", jV(out.getQ())));
}

// ------------------------------------------------------------------------ (b) Custom / FunctionBased mirrors
struct MirrorCell { Cell cell; int route; };
static std::vector<MirrorCell> makeMirrorCells() {
    std::vector<MirrorCell> v;
    for (auto& cl : makeCells(false, false)) for (int route = RouteCustom; route <= RouteFunctionPermuted; ++route)
        if (routeAvailable(cl.type, route)) v.push_back(MirrorCell{cl, route});
    return v;
}
static void checkMirror(Ctx& c, long ci, Rng& r) {
    static const std::vector<MirrorCell> ML = makeMirrorCells();
    const MirrorCell mc = ML[ci % (long)ML.size()];
    TreeDesc d = makeTreeDesc(r, &mc.cell, mc.cell.euler, 1, 4);
    // cells of non-quaternion types are run in both modes
    if (!mobHasQuat(mc.cell.type)) { const bool eu = (ci / (long)ML.size()) % 2 == 1; d.euler = eu; for (auto& n : d.nodes) n.spec.euler = eu && mobHasQuat(n.spec.type); }
    TreeDesc dm = d;
    dm.nodes[0].route = mc.route;
    if (mc.route == RouteFunctionPermuted) {
        const int nq = refNQ(d.nodes[0].spec);
        std::vector<int> p(nq); for (int i = 0; i < nq; ++i) p[i] = i;
        do { for (int i = nq - 1; i > 0; --i) std::swap(p[i], p[r.integer(0, i)]); bool id = true; for (int i = 0; i < nq; ++i) id = id && p[i] == i; if (!id) break; } while (true);
        dm.nodes[0].perm = p;
    }
    const std::string rk = std::string(routeName(mc.route)) + ":" + cellKey(d.nodes[0].spec);
    c.setPhase("C06 mirror build " + dm.shortStr());
    Vec3 grav = randVec3(r, 9.8); const bool withG = r.coin();
    Tree ta, tb; ta.build(d, nullptr, withG ? &grav : nullptr); tb.build(dm, nullptr, withG ? &grav : nullptr);
    State sa = ta.init(), sb = tb.init();
    TreeState ts = randomTreeState(d, r, ci % 7 == 6);
    ta.setState(sa, ts, true); tb.setState(sb, ts, true);
    auto wit = [&]() { return Json::obj().set("model", dm.shortStr()).set("q", jV(sa.getQ())).set("u", jV(sa.getU())).set("gravity", withG); };
    if (!c.require("mirror:counts:" + rk, sa.getNQ() == sb.getNQ() && sa.getNU() == sb.getNU(), wit)) return;
    c.setPhase("C06 mirror realize " + dm.shortStr());
    Phys pa = collect(ta, sa, false), pb = collect(tb, sb, false);
    if (!c.require("mirror:finite:" + rk, pa.finite && pb.finite, wit)) return;
    auto keyOf = [&](int) { return rk; };   // only node 0 differs between the models
    comparePhys(c, "mirror", d, pa, pb, Transform(), 1 | 4, keyOf, wit);
    c.cover("mirror/" + std::string(routeName(mc.route)) + "/" + cellKeyOpt(d.nodes[0].spec) + (d.euler ? "/E" : "/Q"));
    if (pa.cond <= 1e7 && pb.cond <= 1e7) {
        Phys qa = collect(ta, sa, true), qb = collect(tb, sb, true);
        if (c.require("mirror:finite-acceleration:" + rk, qa.finite && qb.finite, wit)) comparePhys(c, "mirror", d, qa, qb, Transform(), 2 | 4, keyOf, wit);
    } else c.skip("ill-conditioned-M");
    if (c.wantSample()) c.sample(Json::obj().set("relation", "mirror").set("model", dm.shortStr()).set("KE", pa.ke));
}

// ------------------------------------------------------------------------ (c) reversed mobilizer, roles swapped
// body-fixed xyz angles of a rotation matrix (own maths); returns false near the singularity
static bool matToXYZ(const M3<double>& R, double a[3]) {
    double cb = std::sqrt(R(0, 0) * R(0, 0) + R(0, 1) * R(0, 1));
    if (cb < 0.2) return false;
    a[0] = std::atan2(-R(1, 2), R(2, 2)); a[1] = std::atan2(R(0, 2), cb); a[2] = std::atan2(-R(0, 1), R(0, 0));
    return true;
}
static void checkReverseSwap(Ctx& c, long ci, Rng& r) {
    static const std::vector<Cell> CLall = makeCells(false, false);
    static std::vector<Cell> CL; if (CL.empty()) for (auto& x : CLall) if (!x.rev) CL.push_back(x);
    Cell cl = CL[ci % (long)CL.size()];
    MobSpec spec = treeSpec(cl, r);
    const bool euler = mobHasQuat(cl.type) ? cl.euler : ((ci / (long)CL.size()) % 2 == 1);
    const std::string ck = cellKey(spec);
    c.setPhase("C06 reverse-swap build " + cellKeyOpt(spec));
    const int fA = r.integer(0, 2), fB = r.integer(0, 2);
    const Transform X_AF = randFrame(r, fA), X_BM = randFrame(r, fB);
    const MassProperties mpA = randMassProps(r), mpB = randMassProps(r);
    const Vec3 grav = randVec3(r, 9.8);
    struct Sys { MultibodySystem sys; SimbodyMatterSubsystem matter; GeneralForceSubsystem forces; std::unique_ptr<Force::DiscreteForces> disc; MobilizedBody base, tip; Sys() : matter(sys), forces(sys) {} };
    Sys F, Rv;
    MobSpec fs = spec; fs.reversed = false; MobSpec rs = spec; rs.reversed = true;
    F.base = MobilizedBody::Free(F.matter.updGround(), Transform(), Body::Rigid(mpA), Transform());      // body A
    F.tip = makeTested(F.base, X_AF, Body::Rigid(mpB), X_BM, fs);                                        // body B, X between A's F and B's M
    Rv.base = MobilizedBody::Free(Rv.matter.updGround(), Transform(), Body::Rigid(mpB), Transform());    // body B
    Rv.tip = makeTested(Rv.base, X_BM, Body::Rigid(mpA), X_AF, rs);                                      // body A, same joint defined from A to B
    for (Sys* y : {&F, &Rv}) { y->disc.reset(new Force::DiscreteForces(y->forces, y->matter)); Force::UniformGravity(y->forces, y->matter, grav); }
    State sf = F.sys.realizeTopology(), sr = Rv.sys.realizeTopology();
    if (euler) { F.matter.setUseEulerAngles(sf, true); Rv.matter.setUseEulerAngles(sr, true); }
    F.sys.realizeModel(sf); Rv.sys.realizeModel(sr);
    MobSpec se = spec; se.euler = euler && mobHasQuat(spec.type);
    const int nq = refNQ(se), nu = refNU(se);
    double q[8], u[8], fX[8], bq[8], bu[8];
    genQ(se, r, Moderate, false, q); genU(se, r, u); if (ci % 7 == 6) for (int i = 0; i < 8; ++i) u[i] = 0;
    genU(se, r, fX, 4.0);
    MobSpec fr; fr.type = MT_Free; fr.euler = euler;
    genQ(fr, r, Moderate, false, bq); genU(fr, r, bu);
    F.base.setQFromVector(sf, toVector(bq, refNQ(fr))); F.base.setUFromVector(sf, toVector(bu, 6));
    F.tip.setQFromVector(sf, toVector(q, nq)); F.tip.setUFromVector(sf, toVector(u, nu));
    c.setPhase("C06 reverse-swap realize forward " + cellKeyOpt(spec));
    F.sys.realize(sf, Stage::Velocity);
    // place B of the reversed system where the forward system has it (Free with identity frames on Ground:
    // q = orientation (quaternion or xyz angles) and p_GB, u = w_GB, v_GB by its documentation)
    const Transform X_GB = F.tip.getBodyTransform(sf); const SpatialVec V_GB = F.tip.getBodyVelocity(sf);
    double rq[8];
    if (euler) { double a[3]; if (!matToXYZ(fromMat33(X_GB.R().asMat33()), a)) { c.skip("euler-singularity-of-base"); return; } for (int i = 0; i < 3; ++i) { rq[i] = a[i]; rq[3 + i] = X_GB.p()[i]; } }
    else { double e[4]; matToQuat(fromMat33(X_GB.R().asMat33()), e); for (int i = 0; i < 4; ++i) rq[i] = e[i]; for (int i = 0; i < 3; ++i) rq[4 + i] = X_GB.p()[i]; }
    double ru[6] = {V_GB[0][0], V_GB[0][1], V_GB[0][2], V_GB[1][0], V_GB[1][1], V_GB[1][2]};
    Rv.base.setQFromVector(sr, toVector(rq, refNQ(fr))); Rv.base.setUFromVector(sr, toVector(ru, 6));
    Rv.tip.setQFromVector(sr, toVector(q, nq)); Rv.tip.setUFromVector(sr, toVector(u, nu));
    c.setPhase("C06 reverse-swap realize reversed " + cellKeyOpt(spec));
    Rv.sys.realize(sr, Stage::Velocity);
    auto wit = [&]() { return Json::obj().set("cell", cellKeyOpt(spec)).set("euler", euler).set("q", jArr(q, nq)).set("u", jArr(u, nu)).set("frames", std::string("A") + std::to_string(fA) + "B" + std::to_string(fB))
                           .set("X_GA_forward", jX(F.base.getBodyTransform(sf))).set("X_GA_reversed", jX(Rv.tip.getBodyTransform(sr))); };
    auto xdiff = [](const Transform& a, const Transform& b) { return std::max(rotDiff(a.R().asMat33(), fromMat33(b.R().asMat33())), (a.p() - b.p()).norm() / (1 + a.p().norm())); };
    double vscale = 1 + spMax(V_GB) + spMax(F.base.getBodyVelocity(sf));
    c.check("reverse-swap:placement", std::max(xdiff(X_GB, Rv.base.getBodyTransform(sr)), spMax(V_GB - Rv.base.getBodyVelocity(sr)) / vscale), 1e-10, wit);   // harness self-check (Free base)
    c.check("reverse-swap:pose:" + ck, xdiff(F.base.getBodyTransform(sf), Rv.tip.getBodyTransform(sr)), 1e-10, wit);
    c.check("reverse-swap:velocity:" + ck, spMax(F.base.getBodyVelocity(sf) - Rv.tip.getBodyVelocity(sr)) / vscale, 1e-10, wit);
    c.check("reverse-swap:kinetic-energy:" + ck, std::fabs(F.matter.calcKineticEnergy(sf) - Rv.matter.calcKineticEnergy(sr)) / (1 + F.matter.calcKineticEnergy(sf)), 1e-10, wit);
    c.cover("reverse-swap/" + cellKeyOpt(spec) + (euler ? "/E" : "/Q"));
    Matrix Mf, Mr; F.matter.calcM(sf, Mf); Rv.matter.calcM(sr, Mr);
    const double cond = std::max(condEstimate(Mf), condEstimate(Mr));
    if (!(cond <= 1e7)) { c.skip("ill-conditioned-M"); return; }
    const SpatialVec FA(randVec3(r, 4), randVec3(r, 4)), FB(randVec3(r, 4), randVec3(r, 4));
    F.disc->setOneBodyForce(sf, F.base, FA); F.disc->setOneBodyForce(sf, F.tip, FB);
    Rv.disc->setOneBodyForce(sr, Rv.tip, FA); Rv.disc->setOneBodyForce(sr, Rv.base, FB);
    for (int j = 0; j < nu; ++j) { F.disc->setOneMobilityForce(sf, F.tip, MobilizerUIndex(j), fX[j]); Rv.disc->setOneMobilityForce(sr, Rv.tip, MobilizerUIndex(j), fX[j]); }
    c.setPhase("C06 reverse-swap accelerations " + cellKeyOpt(spec));
    F.sys.realize(sf, Stage::Acceleration); Rv.sys.realize(sr, Stage::Acceleration);
    const double tolc = 1e-12 * cond + 1e-9;
    const SpatialVec A_A = F.base.getBodyAcceleration(sf), A_B = F.tip.getBodyAcceleration(sf);
    const double ascale = std::max(1 + spMax(A_A) + spMax(A_B), vscale * vscale);
    c.check("reverse-swap:acceleration:" + ck, std::max(spMax(A_A - Rv.tip.getBodyAcceleration(sr)), spMax(A_B - Rv.base.getBodyAcceleration(sr))) / ascale, tolc, wit);
    { Vector uf = F.tip.getUDotAsVector(sf), ur = Rv.tip.getUDotAsVector(sr);
      c.check("reverse-swap:udot:" + ck, nu ? vmaxabs(uf - ur) / (ascale + vmaxabs(uf)) : 0.0, tolc, [&] { return wit().set("udot_forward", jV(uf)).set("udot_reversed", jV(ur)); }); }
    // the joint's force on B (applied at the joint frame fixed on B) and on A (at the joint frame fixed on A)
    const SpatialVec onB_f = F.tip.findMobilizerReactionOnBodyAtMInGround(sf), onB_r = Rv.tip.findMobilizerReactionOnParentAtFInGround(sr);
    const SpatialVec onA_f = F.tip.findMobilizerReactionOnParentAtFInGround(sf), onA_r = Rv.tip.findMobilizerReactionOnBodyAtMInGround(sr);
    const double fscale = 1 + spMax(onB_f) + spMax(onA_f) + ascale;
    c.check("reverse-swap:reaction:" + ck, std::max(spMax(onB_f - onB_r), spMax(onA_f - onA_r)) / fscale, tolc,
            [&] { return wit().set("onB_forward", jSV(onB_f)).set("onB_reversed", jSV(onB_r)).set("onA_forward", jSV(onA_f)).set("onA_reversed", jSV(onA_r)); });
    if (c.wantSample()) c.sample(Json::obj().set("relation", "reverse-swap").set("cell", cellKeyOpt(spec)).set("udot", jV(F.tip.getUDotAsVector(sf))));
}

// ------------------------------------------------------------------------ (d) rigid relocation w.r.t. Ground
static void checkRelocate(Ctx& c, long ci, Rng& r) {
    static const std::vector<Cell> CL = makeCells(true, false);
    Cell cl = CL[ci % (long)CL.size()];
    const bool euler = mobHasQuat(cl.type) ? cl.euler : ((ci / (long)CL.size()) % 2 == 1);
    TreeDesc d = makeTreeDesc(r, &cl, euler, 1, 5);
    // occasionally a Custom / FunctionBased base: relocation must not care about the route either
    if (r.coin(0.15) && routeAvailable(cl.type, RouteCustom)) d.nodes[0].route = RouteCustom;
    const Transform X = randFrame(r, 2);
    Vec3 g1 = randVec3(r, 9.8), g2 = X.R() * g1;
    c.setPhase("C06 relocate build " + d.shortStr());
    Tree ta, tb; ta.build(d, nullptr, &g1); tb.build(d, &X, &g2);
    State sa = ta.init(), sb = tb.init();
    TreeState ts = randomTreeState(d, r, ci % 7 == 6);
    ta.setState(sa, ts, false); tb.setState(sb, ts, false);
    ta.setForces(sa, ts); tb.setForces(sb, ts, &X.R());
    auto wit = [&]() { return Json::obj().set("model", d.shortStr()).set("q", jV(sa.getQ())).set("u", jV(sa.getU())).set("X_relocation", jX(X)); };
    // attribute to the base (Ground-attached) ancestor of the failing body
    auto keyOf = [&](int k) { int a = k; while (d.nodes[a].parent >= 0) a = d.nodes[a].parent; return cellKey(d.nodes[a].spec) + (d.nodes[a].route ? std::string("@") + routeName(d.nodes[a].route) : std::string()); };
    c.setPhase("C06 relocate realize " + d.shortStr());
    Phys pa = collect(ta, sa, false), pb = collect(tb, sb, false);
    if (!c.require("relocate:finite", pa.finite && pb.finite, wit)) return;
    comparePhys(c, "relocate", d, pa, pb, X, 1 | 4, keyOf, wit);
    for (size_t k = 0; k < d.nodes.size(); ++k) if (d.nodes[k].parent < 0) c.cover("relocate/" + keyOf((int)k) + "/F" + std::to_string(d.nodes[k].fF));
    if (pa.cond <= 1e7) {
        Phys qa = collect(ta, sa, true), qb = collect(tb, sb, true);
        if (c.require("relocate:finite-acceleration", qa.finite && qb.finite, wit)) comparePhys(c, "relocate", d, qa, qb, X, 2 | 4, keyOf, wit);
    } else c.skip("ill-conditioned-M");
    if (c.wantSample()) c.sample(Json::obj().set("relation", "relocate").set("model", d.shortStr()).set("KE", pa.ke));
}

static void checkC06(Ctx& c, long idx, Rng& r) {
    const long ci = idx / 4;
    switch (idx % 4) {
    case 0: checkConvert(c, ci, r); break;
    case 1: checkMirror(c, ci, r); break;
    case 2: checkReverseSwap(c, ci, r); break;
    default: checkRelocate(c, ci, r); break;
    }
}

int main(int argc, char** argv) {
    Args a = parseArgs(argc, argv);
    Ctx c(a);
    const std::string p = a.prop;
    return runCases(c, [&](long i, Rng& r) {
        if (p == "C05") checkC05(c, i, r);
        else if (p == "C06") checkC06(c, i, r);
        else { fprintf(stderr, "mon_mobilizer: unknown property %s\n", p.c_str()); exit(2); }
    });
}
