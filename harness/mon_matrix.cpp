// mon_matrix — C25: Matrix_/Vector_/RowVector_ objects and views, and fixed-size Vec/Row/Mat/SymMat
// with negator/conjugate adaptors, behave like the real matrices they denote (DESIGN §5 C25).
//
// Parts (selected by --part, default "main"):
//   main    : case index cycles through  big-matrix sequences (lock-step dense reference model over
//             element families Real, float, Complex(+conjugate), Vec3(+Row3), SpatialVec, each with
//             their negator<> variants), fixed-size Vec/Row/Mat/SymMat cases and scalar adaptor cases.
//             Two input classes with known findings that can crash the process are generated only on
//             request (--emptyviews 1: views with an offset into objects that hold no memory;
//             --reshape1d 1: a Matrix_ handle whose storage is 1-d reshaped to a non 1-d size).
//   tri     : symmetric/hermitian/triangular-committed Matrix_ (MatrixHelperRep_Tri.h), no handle cloning
//   tricopy : the same plus deep copies of such matrices
//
// Legal-client preconditions (never generated / skipped with a reason):
//   * no use of a view after its data owner was resized, cleared, reallocated by assignment or destroyed;
//   * no write through read-only views; resize only on data owners within the handle commitment;
//   * source of an in-place operation never partially overlaps its destination;
//   * element indices in range, conforming dimensions, strictly increasing index lists;
//   * no division by (near) zero elements; inversion only of well-conditioned matrices (cond <= 1e3);
//   * scalar-valued queries and products are not judged on inputs containing NaN (skip "nan-input").
#include "matrix_big.h"
#include "matrix_small.h"
#include "matrix_tri.h"
#include <dlfcn.h>
using namespace SimTK;
using namespace vh;

// The fixed-size inverse() of sizes >= 4 is header-inline code that calls LAPACK's getrf/getri
// directly. The harness link line names only the SimTK libraries (LAPACK is their private
// dependency), so the eight symbols are defined here as forwarders to the next definition in
// the process (the real LAPACK already loaded by libSimTKcommon).
extern "C" {
#define MX_GETRF(name, T) void name(const int& m, const int& n, T* a, const int& lda, int* ipiv, int& info) { \
    typedef void (*F)(const int&, const int&, T*, const int&, int*, int&); static F f = (F)dlsym(RTLD_NEXT, #name); \
    if (!f) { fprintf(stderr, "mon_matrix: cannot resolve %s\n", #name); abort(); } f(m, n, a, lda, ipiv, info); }
#define MX_GETRI(name, T) void name(const int& n, T* a, const int& lda, const int* ipiv, T* work, const int& lwork, int& info) { \
    typedef void (*F)(const int&, T*, const int&, const int*, T*, const int&, int&); static F f = (F)dlsym(RTLD_NEXT, #name); \
    if (!f) { fprintf(stderr, "mon_matrix: cannot resolve %s\n", #name); abort(); } f(n, a, lda, ipiv, work, lwork, info); }
MX_GETRF(sgetrf_, float) MX_GETRF(dgetrf_, double) MX_GETRF(cgetrf_, std::complex<float>) MX_GETRF(zgetrf_, std::complex<double>)
MX_GETRI(sgetri_, float) MX_GETRI(dgetri_, double) MX_GETRI(cgetri_, std::complex<float>) MX_GETRI(zgetri_, std::complex<double>)
}

template <class B> static void runBig(Ctx& c, Rng& r, bool thorough) {
    mx::Engine<B> e(c, r);
    e.allowNullOffsetViews = c.args.getInt("emptyviews", 0) != 0;
    e.allowReshape1d = c.args.getInt("reshape1d", 0) != 0;
    int nOps = thorough ? r.integer(30, 200) : r.integer(30, 110);
    e.runSequence(nOps);
}

int main(int argc, char** argv) {
    Args a = parseArgs(argc, argv);
    Ctx c(a);
    if (a.prop != "C25") { fprintf(stderr, "mon_matrix: unknown property %s\n", a.prop.c_str()); return 2; }
    const std::string part = a.get("part", "main");
    const bool thorough = a.tier == "thorough";
    const long only = a.getInt("family", -1);
    return runCases(c, [&](long i, Rng& r) {
        if (part == "tri" || part == "tricopy") { mx::runTriCase(c, r, i, part == "tricopy"); return; }
        long k = only >= 0 ? only : (i % 8);
        switch (k) {
        case 0: runBig<Real>(c, r, thorough); break;
        case 1: runBig<Complex>(c, r, thorough); break;
        case 2: runBig<Vec3>(c, r, thorough); break;
        case 3: runBig<float>(c, r, thorough); break;
        case 4: runBig<SpatialVec>(c, r, thorough); break;
        case 5: runBig<Real>(c, r, thorough); break;
        case 6: mx::runSmallCase(c, r, i / 8 + (long)(c.args.seed % 22)); break;
        default: mx::runScalarCase(c, r, i / 8 + (long)(c.args.seed % 16)); break;
        }
    });
}
