// mon_matrix — C25: Matrix_/Vector_/RowVector_ objects and views, and fixed-size Vec/Row/Mat/SymMat
// with negator/conjugate adaptors, behave like the real matrices they denote (DESIGN §5 C25).
//
// Parts (selected by --part, default "main"):
//   main    : case index cycles through  big-matrix sequences (lock-step dense reference model over
//             element families Real, float, Complex(+conjugate), Vec3(+Row3), SpatialVec, each with
//             their negator<> variants), fixed-size Vec/Row/Mat/SymMat cases and scalar adaptor cases.
//   tri     : symmetric/hermitian/triangular-committed Matrix_ (MatrixHelperRep_Tri.h), no handle cloning
//   tricopy : the same plus deep copies of such matrices
//
// Legal-client preconditions (never generated / skipped with a reason):
//   * no use of a view after its data owner was resized, cleared, reallocated by assignment or destroyed;
//   * no write through read-only views; resize only on data owners within the handle commitment;
//   * source of an in-place operation never partially overlaps its destination;
//   * element indices in range, conforming dimensions, strictly increasing index lists;
//   * no division by (near) zero elements; inversion only of well-conditioned matrices (cond <= 1e3);
//   * scalar-valued queries and products are not judged on inputs containing NaN (skip "nan-input").
#include "matrix_big.h"
#include "matrix_small.h"
#include "matrix_tri.h"
using namespace SimTK;
using namespace vh;

template <class B> static void runBig(Ctx& c, Rng& r, bool thorough) {
    mx::Engine<B> e(c, r);
    e.allowNullOffsetViews = c.args.getInt("emptyviews", 0) != 0;
    int nOps = thorough ? r.integer(30, 200) : r.integer(30, 110);
    e.runSequence(nOps);
}

int main(int argc, char** argv) {
    Args a = parseArgs(argc, argv);
    Ctx c(a);
    if (a.prop != "C25") { fprintf(stderr, "mon_matrix: unknown property %s\n", a.prop.c_str()); return 2; }
    const std::string part = a.get("part", "main");
    const bool thorough = a.tier == "thorough";
    const long only = a.getInt("family", -1);
    return runCases(c, [&](long i, Rng& r) {
        if (part == "tri" || part == "tricopy") { mx::runTriCase(c, r, i, part == "tricopy"); return; }
        long k = only >= 0 ? only : (i % 8);
        switch (k) {
        case 0: runBig<Real>(c, r, thorough); break;
        case 1: runBig<Complex>(c, r, thorough); break;
        case 2: runBig<Vec3>(c, r, thorough); break;
        case 3: runBig<float>(c, r, thorough); break;
        case 4: runBig<SpatialVec>(c, r, thorough); break;
        case 5: runBig<Real>(c, r, thorough); break;
        case 6: mx::runSmallCase(c, r, i / 8); break;
        default: mx::runScalarCase(c, r, i / 8); break;
        }
    });
}
